// Library face of the verification harness: modules shared by the `xv` binary and the libFuzzer target.
pub mod common;
pub mod ext;
pub mod prog;
pub mod props;
pub mod val;
pub mod witness;
pub mod xs;

use common::*;

pub struct PropDef {
    pub id: &'static str,
    pub rule: &'static str,
    pub assumptions: &'static [&'static str],
    pub max_len: usize,
    pub quick_cases: u32,
    pub thorough_cases: u32,
    pub case: fn(&mut Choices, &CaseCtx) -> CaseOut,
    /// systematic enumeration (engine B): (worker k, of n, cfg, stats)
    pub systematic: Option<fn(usize, usize, &EngineCfg, &mut Stats)>,
    /// run the quick tier in the release profile as well
    pub both_profiles_quick: bool,
    pub max_shrink_iters: u32,
    /// the systematic part enumerates a finite space completely
    pub exhaustive_note: Option<&'static str>,
}

