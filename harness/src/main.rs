// xv: verification harness for anykey111/xeh (property-based testing / fuzzing)
//   xv run <ID> <quick|thorough>      parent: replays, workers, evidence, verdict
//   xv worker <ID> <tier> <k> <n> <shard>   one worker process
//   xv replay <ID> <file>             strict replay of one saved case
use xv_lib::common::*;
use xv_lib::{props, witness, xs, PropDef};
use std::collections::{BTreeMap, HashSet};
use std::io::Write;
use std::process::{Command, Stdio};
use std::time::{Duration, Instant};

fn profile_name() -> &'static str {
    if cfg!(debug_assertions) {
        "dbg"
    } else {
        "rel"
    }
}

fn seed_from_env() -> u64 {
    std::env::var("VERIF_SEED").ok().and_then(|s| s.trim().parse::<u64>().ok()).unwrap_or(20260922)
}

fn mix(seed: u64, k: u64, salt: u64) -> u64 {
    let mut x = seed ^ (k.wrapping_mul(0x9E3779B97F4A7C15)) ^ salt.wrapping_mul(0xD1B54A32D192ED03);
    x ^= x >> 31;
    x = x.wrapping_mul(0xBF58476D1CE4E5B9);
    x ^= x >> 29;
    x
}

fn main() {
    let args: Vec<String> = std::env::args().collect();
    if args.len() < 2 {
        eprintln!("usage: xv run|worker|replay ...");
        std::process::exit(2);
    }
    install_panic_hook();
    match args[1].as_str() {
        "run" => {
            let code = parent(&args[2], &args[3]);
            std::process::exit(code);
        }
        "worker" => {
            let k: usize = args[4].parse().unwrap();
            let n: usize = args[5].parse().unwrap();
            worker(&args[2], &args[3], k, n, &args[6]);
        }
        "replay" => {
            let code = replay_cmd(&args[2], &args[3]);
            std::process::exit(code);
        }
        "frombytes" => {
            // xv frombytes <ID> <file>: a libFuzzer artifact (bytes) -> choices, strict run, reduction, replay file
            let code = from_bytes_cmd(&args[2], &args[3]);
            std::process::exit(code);
        }
        "maxlen" => {
            println!("{}", find_prop(&args[2]).max_len);
        }
        "words" => {
            let xs = xs::boot_safe();
            for (n, k) in xs.verif_dict() {
                println!("{} {}", k, n);
            }
        }
        "list" => {
            for p in props::all() {
                println!("{}", p.id);
            }
        }
        _ => {
            eprintln!("unknown command");
            std::process::exit(2);
        }
    }
}

fn find_prop(id: &str) -> &'static PropDef {
    match props::all().iter().find(|p| p.id == id) {
        Some(p) => p,
        None => {
            eprintln!("unknown property {}", id);
            std::process::exit(2);
        }
    }
}

fn known_sigs(id: &str) -> Vec<String> {
    load_known(id).into_iter().map(|k| k.sig).collect()
}

// ---------------------------------------------------------------------------
// worker
// ---------------------------------------------------------------------------
fn worker(id: &str, tier: &str, k: usize, n: usize, shard: &str) {
    let p = find_prop(id);
    let thorough = tier == "thorough";
    xs::worker_limits();
    let seed = seed_from_env();
    let release = !cfg!(debug_assertions);
    let total = if thorough { p.thorough_cases } else { p.quick_cases };
    let cases = total / n as u32 + if (k as u32) < total % n as u32 { 1 } else { 0 };
    let cfg = EngineCfg {
        seed: mix(seed, k as u64, if release { 7 } else { 3 }),
        cases,
        max_len: p.max_len,
        thorough,
        release,
        known: known_sigs(id),
        max_shrink_iters: p.max_shrink_iters,
    };
    let mut stats = Stats::default();
    if let Some(sys) = p.systematic {
        sys(k, n, &cfg, &mut stats);
    }
    if stats.violations.is_empty() {
        let mut f = |ch: &mut Choices, ctx: &CaseCtx| (p.case)(ch, ctx);
        engine_random(&cfg, &mut stats, &mut f);
    }
    write_shard(shard, &stats);
}

fn write_shard(path: &str, st: &Stats) {
    use serde_json::json;
    let viol: Vec<_> = st
        .violations
        .iter()
        .map(|v| json!({"sig": v.sig, "detail": v.detail, "choices": v.choices, "direct": v.direct, "render": v.render}))
        .collect();
    let j = json!({
        "evaluations": st.evaluations,
        "classes": st.classes,
        "samples": st.samples,
        "known_hits": st.known_hits,
        "excluded_known": st.excluded_known,
        "discarded": st.discarded,
        "extra": st.extra,
        "violations": viol,
    });
    std::fs::write(path, serde_json::to_vec(&j).unwrap()).unwrap();
    let mut hb = Vec::with_capacity(st.nontrivial.len() * 8);
    for h in &st.nontrivial {
        hb.extend_from_slice(&h.to_le_bytes());
    }
    std::fs::write(format!("{}.hashes", path), hb).unwrap();
}

// ---------------------------------------------------------------------------
// replay
// ---------------------------------------------------------------------------
/// exit 0: case passes; 1: fails (prints signature); 3: fails with a known signature
fn replay_cmd(id: &str, file: &str) -> i32 {
    let p = find_prop(id);
    let r = match read_replay(file) {
        Some(r) => r,
        None => {
            eprintln!("cannot read replay file {}", file);
            return 2;
        }
    };
    xs::worker_limits();
    if !r.witness.is_empty() {
        let bad = witness::run_for(id);
        return match bad.iter().find(|(n, _)| n == &r.witness) {
            Some((n, d)) => {
                println!("REPLAY-FAIL profile={} signature=witness: {}", profile_name(), n);
                println!("detail: {}", d);
                1
            }
            None => {
                println!("REPLAY-PASS profile={}", profile_name());
                0
            }
        };
    }
    let ctx = CaseCtx { want_render: true, tier_thorough: r.thorough, release: !cfg!(debug_assertions) };
    let mut ch = Choices::new(&r.choices, r.direct);
    let out = match std::panic::catch_unwind(std::panic::AssertUnwindSafe(|| (p.case)(&mut ch, &ctx))) {
        Ok(o) => o,
        Err(_) => {
            let mut o = CaseOut::default();
            o.fail(
                format!("panic: {}", normalise(&take_panic().unwrap_or_default())),
                "uncaught panic while running the case",
            );
            o
        }
    };
    if let Some(r) = &out.render {
        println!("case:\n{}", r);
    }
    match out.fail {
        None => {
            println!("REPLAY-PASS profile={}", profile_name());
            0
        }
        Some(f) => {
            println!("REPLAY-FAIL profile={} signature={}", profile_name(), f.sig);
            println!("detail: {}", f.detail);
            if known_sigs(id).iter().any(|k| k == &f.sig) {
                3
            } else {
                1
            }
        }
    }
}

// ---------------------------------------------------------------------------
// libFuzzer artifacts
// ---------------------------------------------------------------------------
fn run_choices(p: &PropDef, v: &[u32]) -> Option<Failure> {
    let ctx = CaseCtx { want_render: true, tier_thorough: false, release: !cfg!(debug_assertions) };
    let mut ch = Choices::new(v, false);
    match std::panic::catch_unwind(std::panic::AssertUnwindSafe(|| (p.case)(&mut ch, &ctx))) {
        Ok(o) => o.fail,
        Err(_) => Some(Failure { sig: format!("panic: {}", normalise(&take_panic().unwrap_or_default())), detail: "uncaught panic while running the case".into() }),
    }
}

fn from_bytes_cmd(id: &str, file: &str) -> i32 {
    let p = find_prop(id);
    let data = match std::fs::read(file) {
        Ok(d) => d,
        Err(_) => return 2,
    };
    xs::worker_limits();
    let mut v: Vec<u32> = bytes_to_choices(&data);
    let f = match run_choices(p, &v) {
        None => {
            println!("artifact {} does not fail when replayed strictly", file);
            return 0;
        }
        Some(f) => f,
    };
    if known_sigs(id).iter().any(|k| k == &f.sig) {
        println!("artifact {} reproduces the known finding {}", file, f.sig);
        return 0;
    }
    // delta reduction keeping the signature: drop the tail, drop single elements, zero elements
    let same = |v: &[u32]| run_choices(p, v).map(|g| g.sig == f.sig).unwrap_or(false);
    let mut budget = 3000;
    loop {
        let mut progress = false;
        let mut cut = v.len() / 2;
        while cut >= 1 && budget > 0 {
            if v.len() > cut {
                let t: Vec<u32> = v[..v.len() - cut].to_vec();
                budget -= 1;
                if same(&t) {
                    v = t;
                    progress = true;
                    continue;
                }
            }
            cut /= 2;
        }
        let mut i = 0;
        while i < v.len() && budget > 0 {
            let mut t = v.clone();
            t.remove(i);
            budget -= 1;
            if same(&t) {
                v = t;
                progress = true;
            } else {
                if v[i] != 0 {
                    let mut z = v.clone();
                    z[i] = 0;
                    budget -= 1;
                    if same(&z) {
                        v = z;
                        progress = true;
                    }
                }
                i += 1;
            }
        }
        if !progress || budget <= 0 {
            break;
        }
    }
    let ctx = CaseCtx { want_render: true, tier_thorough: false, release: !cfg!(debug_assertions) };
    let mut ch = Choices::new(&v, false);
    let render = std::panic::catch_unwind(std::panic::AssertUnwindSafe(|| (p.case)(&mut ch, &ctx))).ok().and_then(|o| o.render).unwrap_or_default();
    let viol = Violation { sig: f.sig.clone(), detail: format!("found by libFuzzer (artifact {})\n{}", file, f.detail), choices: v, direct: false, render };
    let path = write_replay(id, &viol, "fuzz");
    println!("--- violation (libFuzzer) signature: {}\n{}", viol.sig, viol.detail);
    println!("VIOLATION property={} replay={}", id, path);
    1
}

// ---------------------------------------------------------------------------
// parent
// ---------------------------------------------------------------------------
fn sibling_exe(profile: &str) -> Option<String> {
    let me = std::env::current_exe().ok()?;
    let dir = me.parent()?.parent()?;
    let sub = if profile == "dbg" { "debug" } else { "release" };
    let p = dir.join(sub).join("xv");
    if p.exists() {
        Some(p.to_string_lossy().to_string())
    } else {
        None
    }
}

struct Child {
    proc: std::process::Child,
    shard: String,
    profile: String,
    k: usize,
    errlog: String,
}

fn parent(id: &str, tier: &str) -> i32 {
    let p = find_prop(id);
    let t0 = Instant::now();
    let thorough = tier == "thorough";
    REPLAY_TIER_THOROUGH.store(thorough, std::sync::atomic::Ordering::Relaxed);
    let seed = seed_from_env();
    let root = verif_root();
    let rundir = format!("{}/.run/{}", root, id);
    let _ = std::fs::remove_dir_all(&rundir);
    std::fs::create_dir_all(&rundir).unwrap();
    let _ = std::fs::create_dir_all(format!("{}/evidence", root));
    let known = load_known(id);
    let mut violation_lines: Vec<String> = Vec::new();
    let mut known_lines: Vec<String> = Vec::new();
    let mut inconclusive: Vec<String> = Vec::new();
    let mut replayed = 0u64;

    let mut profiles: Vec<String> = vec!["dbg".into()];
    if thorough || p.both_profiles_quick {
        profiles.push("rel".into());
    }
    let mut exes: BTreeMap<String, String> = BTreeMap::new();
    for pr in &profiles {
        match sibling_exe(pr) {
            Some(e) => {
                exes.insert(pr.clone(), e);
            }
            None => {
                println!("INCONCLUSIVE property={} missing harness binary for profile {}", id, pr);
                return 2;
            }
        }
    }

    // ---- witness tier: plain regression inputs of the repaired defects -------
    let nwitness = witness::count_for(id) as u64;
    for (name, detail) in witness::run_for(id) {
        let dir = format!("{}/replays/{}", root, id);
        let _ = std::fs::create_dir_all(&dir);
        let path = format!("{}/fail-witness-{}.replay", dir, name);
        let _ = std::fs::write(&path, format!("property={}\nwitness={}\nsignature=witness: {}\n# detail: {}\n", id, name, name, detail));
        violation_lines.push(format!("VIOLATION property={} replay={}", id, path));
        eprintln!("--- violation (witness) signature: witness: {}\n{}", name, detail);
    }
    replayed += nwitness;

    // ---- replay tier -----------------------------------------------------
    let rdir = format!("{}/replays/{}", root, id);
    let mut files: Vec<String> = std::fs::read_dir(&rdir)
        .map(|d| {
            d.filter_map(|e| e.ok())
                .map(|e| e.path().to_string_lossy().to_string())
                .filter(|f| f.ends_with(".replay") && !f.contains("fail-witness-"))
                .collect()
        })
        .unwrap_or_default();
    files.sort();
    let mut known_seen: HashSet<String> = HashSet::new();
    for f in &files {
        let r = match read_replay(f) {
            Some(r) => r,
            None => continue,
        };
        for (pr, exe) in &exes {
            replayed += 1;
            let out = Command::new(exe)
                .args(["replay", id, f])
                .env("VERIF_ROOT", &root)
                .stderr(Stdio::null())
                .output();
            let out = match out {
                Ok(o) => o,
                Err(_) => continue,
            };
            let text = String::from_utf8_lossy(&out.stdout).to_string();
            let sig = text
                .lines()
                .find_map(|l| l.split_once("signature=").map(|x| x.1.to_string()))
                .unwrap_or_default();
            match out.status.code() {
                Some(0) => {}
                Some(3) => {
                    known_seen.insert(sig);
                }
                Some(1) => {
                    violation_lines.push(format!("VIOLATION property={} replay={}", id, f));
                    eprintln!("replay {} fails in profile {}: {}", f, pr, sig);
                }
                Some(2) => inconclusive.push(format!("replay {} unreadable", f)),
                _ => {
                    // died by signal / abort
                    if r.expect == "abort-known" {
                        known_seen.insert(r.signature.clone());
                    } else {
                        violation_lines.push(format!("VIOLATION property={} replay={}", id, f));
                        eprintln!("replay {} killed the process in profile {}", f, pr);
                    }
                }
            }
        }
    }

    // ---- search tier -------------------------------------------------------
    let nworkers: usize = std::env::var("VERIF_WORKERS").ok().and_then(|s| s.parse().ok()).unwrap_or(16);
    let per_profile = if profiles.len() > 1 { (nworkers / 2).max(1) } else { nworkers };
    let mut children: Vec<Child> = Vec::new();
    for pr in &profiles {
        for k in 0..per_profile {
            let shard = format!("{}/shard-{}-{}.json", rundir, pr, k);
            let errlog = format!("{}/worker-{}-{}.err", rundir, pr, k);
            let errf = std::fs::File::create(&errlog).unwrap();
            let proc = Command::new(&exes[pr])
                .args(["worker", id, tier, &k.to_string(), &per_profile.to_string(), &shard])
                .env("VERIF_SEED", seed.to_string())
                .env("VERIF_ROOT", &root)
                .env("VERIF_RUNDIR", &rundir)
                .stdout(Stdio::null())
                .stderr(errf)
                .spawn()
                .expect("spawn worker");
            children.push(Child { proc, shard, profile: pr.clone(), k, errlog });
        }
    }
    let budget = Duration::from_secs(
        std::env::var("VERIF_WATCHDOG_S").ok().and_then(|s| s.parse().ok()).unwrap_or(if thorough { 5400 } else { 1500 }),
    );
    let mut merged = Stats::default();
    let mut per_profile_evals: BTreeMap<String, u64> = BTreeMap::new();
    let mut all_viol: Vec<(String, Violation)> = Vec::new();
    for mut c in children {
        let status = loop {
            match c.proc.try_wait() {
                Ok(Some(st)) => break Some(st),
                Ok(None) => {
                    if t0.elapsed() > budget {
                        let _ = c.proc.kill();
                        let _ = c.proc.wait();
                        break None;
                    }
                    std::thread::sleep(Duration::from_millis(20));
                }
                Err(_) => break None,
            }
        };
        match status {
            None => inconclusive.push(format!("worker {}-{} exceeded the watchdog", c.profile, c.k)),
            Some(st) if st.success() => {
                if !merge_shard(&c.shard, &mut merged, &mut per_profile_evals, &c.profile, &mut all_viol) {
                    inconclusive.push(format!("worker {}-{} wrote no shard", c.profile, c.k));
                }
            }
            Some(st) => {
                let err = std::fs::read_to_string(&c.errlog).unwrap_or_default();
                let rerun = |note: &str| -> bool {
                    // same worker, same seed, careful mode; true when it dies again
                    let st = Command::new(&exes[&c.profile])
                        .args(["worker", id, tier, &c.k.to_string(), &per_profile.to_string(), &c.shard])
                        .env("VERIF_SEED", seed.to_string())
                        .env("VERIF_ROOT", &root)
                        .env("VERIF_RUNDIR", &rundir)
                        .env("VERIF_CAREFUL", note)
                        .stdout(Stdio::null())
                        .stderr(Stdio::null())
                        .status();
                    match st {
                        Ok(s) => !s.success(),
                        Err(_) => false,
                    }
                };
                let handled = props::worker_died(id, &rundir, &c.profile, c.k, &err, &mut all_viol, &known, &rerun);
                if !handled {
                    let tail: String = err.lines().rev().take(3).collect::<Vec<_>>().join(" / ");
                    inconclusive.push(format!("worker {}-{} died: {:?} {}", c.profile, c.k, st, tail));
                }
            }
        }
    }

    // ---- verdict ---------------------------------------------------------
    let mut seen_sig: HashSet<String> = HashSet::new();
    for (pr, v) in &all_viol {
        if known.iter().any(|k| k.sig == v.sig) {
            known_seen.insert(v.sig.clone());
            continue;
        }
        if !seen_sig.insert(v.sig.clone()) {
            continue;
        }
        let path = write_replay(id, v, pr);
        violation_lines.push(format!("VIOLATION property={} replay={}", id, path));
        eprintln!("--- violation ({}) signature: {}\n{}\n{}", pr, v.sig, v.detail, v.render);
    }
    for k in merged.known_hits.keys() {
        known_seen.insert(k.clone());
    }
    for k in &known {
        // every listed finding is reported; whether the witness still fails is stated
        let status = if known_seen.contains(&k.sig) { "" } else { " (not reproduced in this run)" };
        known_lines.push(format!("KNOWN-FINDING: property={} {}{}", id, k.text, status));
    }

    let wall = t0.elapsed().as_secs_f64();
    write_evidence(p, tier, seed, &merged, &per_profile_evals, replayed, violation_lines.len(), wall, &inconclusive);
    let out = std::io::stdout();
    let mut out = out.lock();
    for l in &known_lines {
        let _ = writeln!(out, "{}", l);
    }
    let _ = writeln!(
        out,
        "{} {}: evaluations={} distinct_nontrivial={} replayed={} known_hits={} wall={:.1}s",
        id,
        tier,
        merged.evaluations,
        merged.nontrivial.len(),
        replayed,
        merged.known_hits.values().sum::<u64>(),
        wall
    );
    if !violation_lines.is_empty() {
        violation_lines.sort();
        violation_lines.dedup();
        for l in &violation_lines {
            let _ = writeln!(out, "{}", l);
        }
        return 1;
    }
    if !inconclusive.is_empty() {
        for l in &inconclusive {
            let _ = writeln!(out, "INCONCLUSIVE property={} {}", id, l);
        }
        return 2;
    }
    0
}

fn merge_shard(
    path: &str,
    merged: &mut Stats,
    per_profile: &mut BTreeMap<String, u64>,
    profile: &str,
    viol: &mut Vec<(String, Violation)>,
) -> bool {
    let data = match std::fs::read(path) {
        Ok(d) => d,
        Err(_) => return false,
    };
    let j: serde_json::Value = match serde_json::from_slice(&data) {
        Ok(j) => j,
        Err(_) => return false,
    };
    let ev = j["evaluations"].as_u64().unwrap_or(0);
    merged.evaluations += ev;
    *per_profile.entry(profile.to_string()).or_insert(0) += ev;
    merged.excluded_known += j["excluded_known"].as_u64().unwrap_or(0);
    merged.discarded += j["discarded"].as_u64().unwrap_or(0);
    for (name, target) in [("classes", &mut merged.classes), ("known_hits", &mut merged.known_hits), ("extra", &mut merged.extra)] {
        if let Some(m) = j[name].as_object() {
            for (k, v) in m {
                *target.entry(k.clone()).or_insert(0) += v.as_u64().unwrap_or(0);
            }
        }
    }
    if let Some(a) = j["samples"].as_array() {
        for s in a.iter().take(2) {
            if merged.samples.len() < 8 {
                merged.samples.push(s.as_str().unwrap_or("").to_string());
            }
        }
    }
    if let Some(a) = j["violations"].as_array() {
        for v in a {
            viol.push((
                profile.to_string(),
                Violation {
                    sig: v["sig"].as_str().unwrap_or("").to_string(),
                    detail: v["detail"].as_str().unwrap_or("").to_string(),
                    choices: v["choices"].as_array().map(|a| a.iter().map(|x| x.as_u64().unwrap_or(0) as u32).collect()).unwrap_or_default(),
                    direct: v["direct"].as_bool().unwrap_or(false),
                    render: v["render"].as_str().unwrap_or("").to_string(),
                },
            ));
        }
    }
    if let Ok(hb) = std::fs::read(format!("{}.hashes", path)) {
        for c in hb.chunks_exact(8) {
            merged.nontrivial.insert(u64::from_le_bytes(c.try_into().unwrap()));
        }
    }
    true
}

#[allow(clippy::too_many_arguments)]
fn write_evidence(
    p: &PropDef,
    tier: &str,
    seed: u64,
    st: &Stats,
    per_profile: &BTreeMap<String, u64>,
    replayed: u64,
    violations: usize,
    wall: f64,
    inconclusive: &[String],
) {
    use serde_json::json;
    let mut samples: Vec<serde_json::Value> = st.samples.iter().map(|s| json!(s)).collect();
    if samples.is_empty() {
        samples.push(json!("(no non-trivial sample captured in this run)"));
    }
    let mut coverage = json!({
        "evaluations": st.evaluations,
        "distinct_nontrivial": st.nontrivial.len(),
        "rule": p.rule,
        "samples": samples,
        "classes": st.classes,
        "known_finding_hits": st.known_hits,
        "excluded_known_by_construction": st.excluded_known,
        "discarded": st.discarded,
        "evaluations_per_profile": per_profile,
        "replayed_saved_cases": replayed,
        "counters": st.extra,
        "inconclusive": inconclusive,
    });
    if let Some(n) = p.exhaustive_note {
        coverage["exhaustive_subspace"] = json!(n);
    }
    let j = json!({
        "property_id": p.id,
        "tier": tier,
        "seed": seed,
        "level": "exploration",
        "coverage": coverage,
        "assumptions": p.assumptions,
        "wall_s": wall,
        "violations": violations,
    });
    let path = format!("{}/evidence/{}.json", verif_root(), p.id);
    std::fs::write(path, serde_json::to_string_pretty(&j).unwrap()).unwrap();
}
