// Regression tier: plain witnesses of the defects that were found and repaired (known_findings.txt `fixed:`
// lines).  They bypass every generator: each is a short list of sources with the expected outcome of every
// step and, optionally, the expected final stack.  They run at the start of the property's check (both
// tiers); a mismatch is a violation like any other.
use crate::common::*;
use crate::xs;
use xeh::prelude::*;

pub struct Witness {
    pub prop: &'static str,
    pub name: &'static str,
    /// (source, expected result kind as printed by {:?} of xs::Kind)
    pub steps: &'static [(&'static str, &'static str)],
    /// expected visible stack after the last step (xs::render_stack format), if fixed
    pub stack: Option<&'static str>,
}

pub const WITNESSES: &[Witness] = &[
    Witness { prop: "C01", name: "empty-do-loop-index-not-visible", steps: &[("3 0 do loop", "Ok"), ("I", "LoopStack")], stack: Some("") },
    Witness { prop: "C01", name: "begin-repeat-empty-body-never-falls-through", steps: &[("begin repeat 5", "InsnLimit")], stack: Some("") },
    Witness { prop: "C01", name: "begin-until-empty-body", steps: &[("true false begin until depth", "Ok")], stack: Some("0") },
    Witness { prop: "C01", name: "local-after-skipped-local", steps: &[(": f false if 10 local a then 20 local b b ; f", "Ok")], stack: Some("20") },
    Witness { prop: "C05", name: "little-endian-uint-off-byte-boundary", steps: &[("|1 23 4| open-bitstr 4 uint drop 8 uint", "Ok")], stack: Some("(tagged 35 ^{ \"len\"=>8 })") },
    Witness { prop: "C06", name: "bits-2^64-is-not-zero-bits", steps: &[("|ff| open-bitstr", "Ok"), ("18446744073709551616 bits", "Overflow"), ("offset remain", "Ok")], stack: Some("0 | 8") },
    Witness { prop: "C06", name: "bytes-2^61-does-not-wrap", steps: &[("|ff| open-bitstr", "Ok"), ("2305843009213693952 bytes", "Overflow"), ("offset", "Ok")], stack: Some("0") },
    Witness { prop: "C06", name: "zero-width-int", steps: &[("|ff| open-bitstr 0 int offset", "Ok")], stack: Some("(tagged 0 ^{ \"len\"=>0 }) | 0") },
    Witness { prop: "C08", name: "comment-after-let", steps: &[("[ 1 ] let \\ c\n [ a ] a", "Ok")], stack: Some("1") },
    Witness { prop: "C08", name: "huge-fmt-tag-print", steps: &[("1 ^{ 4294967295 \"#fmt\" ^} print", "Ok")], stack: Some("") },
    Witness { prop: "C08", name: "fmt-radix-to-str-number", steps: &[("\"zz\" ^{ 4294967295 \"#fmt\" ^} str>number", "Parse")], stack: None },
    Witness { prop: "C08", name: "dump-at-huge", steps: &[("18446744073709551615 dump-at", "OutOfBounds")], stack: None },
    Witness { prop: "C08", name: "nth-isize-min", steps: &[("[ 1 ] -9223372036854775808 nth", "OutOfBounds")], stack: None },
    Witness { prop: "C09", name: "rem-by-zero", steps: &[("1 0 rem", "DivZero")], stack: None },
    Witness { prop: "C09", name: "min-div-minus-one", steps: &[("-170141183460469231731687303715884105728 -1 /", "Overflow")], stack: None },
    Witness { prop: "C09", name: "zero-test-on-string", steps: &[("5 \"a\" zero?", "Type")], stack: None },
    Witness { prop: "C10", name: "rejected-source-leaves-nothing", steps: &[("1 foo 2 3", "UnknownWord"), ("4", "Ok")], stack: Some("4") },
    Witness { prop: "C10", name: "rejected-meta-block-keeps-stack", steps: &[("7", "Ok"), ("#( foo #)", "UnknownWord"), ("depth", "Ok")], stack: Some("7 | 1") },
    Witness { prop: "C10", name: "var-after-open-if", steps: &[("1 if", "ControlFlow"), ("5 var x x", "Ok")], stack: Some("5") },
    Witness { prop: "C10", name: "rejected-source-after-partial-eval-failure", steps: &[("\"X\" print 1 0 /", "DivZero"), ("nosuchword", "UnknownWord"), ("5", "Ok")], stack: Some("5") },
    Witness { prop: "C12", name: "foreach-over-empty", steps: &[("[ ] foreach I loop depth", "Ok")], stack: Some("0") },
    Witness { prop: "C12", name: "slice-bound-beyond-isize", steps: &[("[ 1 2 3 ] 1 18446744073709551617 slice", "Ok")], stack: Some("[ 2 3 ]") },
    Witness { prop: "C13", name: "get-on-tagged-vector", steps: &[("[ 1 2 ] ^{ 1 \"k\" ^} 0 get", "Ok")], stack: Some("1") },
    Witness { prop: "C13", name: "insert-on-tagged-map", steps: &[("{ } ^{ ^} 5 \"a\" insert \"a\" get", "Ok")], stack: Some("5") },
    Witness { prop: "C03", name: "append-result-start-does-not-depend-on-ownership", steps: &[("|01 02 03| open-bitstr 1 bytes drop 2 bytes close-bitstr |dd| swap bitstr-append open-bitstr offset", "Ok")], stack: Some("0") },
];

/// witnesses judged by what they print: (property, name, source, expected captured output)
pub const OUT_WITNESSES: &[(&str, &str, &str, &str)] = &[
    ("C11", "dot-s-in-block-hides-outer-stack", "7 #( 8 .s #) drop", "8\n"),
];

fn run_out(src: &str, want: &str) -> Option<String> {
    let mut xs = xs::boot_safe();
    xs.intercept_output(true).unwrap();
    xs.set_insn_limit(Some(50_000)).unwrap();
    match guard(|| xs.eval(src)) {
        Ok(Ok(())) => {}
        Ok(Err(e)) => return Some(format!("`{}` failed: {}", src, xs::render_err(&e))),
        Err(pm) => return Some(format!("`{}` panicked: {}", src, pm)),
    }
    let got = xs::take_stdout(&mut xs);
    if got != want {
        return Some(format!("`{}` printed {:?}, expected {:?}", src, got, want));
    }
    None
}

fn run_one(w: &Witness) -> Option<String> {
    let mut xs = xs::boot_safe();
    xs.intercept_output(true).unwrap();
    for (src, want) in w.steps {
        xs.set_insn_limit(Some(50_000)).unwrap();
        let r = match guard(|| xs.eval(src)) {
            Ok(r) => r,
            Err(pm) => return Some(format!("`{}` panicked: {}", src, pm)),
        };
        let got = format!("{:?}", xs::kind_res(&r));
        if &got != want {
            return Some(format!("`{}` gave {} ({}), expected {}", src, got, xs::render_res(&r), want));
        }
    }
    if let Some(s) = w.stack {
        let got = xs::render_stack(&xs);
        if got != s {
            return Some(format!("final stack [{}], expected [{}]", got, s));
        }
    }
    None
}

/// API-level witness for C02 (needs next/rnext): a local re-initialised in a loop and a foreach binding are undone exactly
fn c02_api() -> Option<String> {
    for src in [": f 2 0 do I local x x drop loop ; f", "[ 0 1 0 ] foreach I 1 + drop loop"] {
        let mut xs = xs::boot_safe();
        xs.set_insn_limit(Some(50_000)).unwrap();
        xs.set_recording_enabled(true);
        if xs.compile(src).is_err() {
            return Some(format!("`{}` does not compile", src));
        }
        let mut dumps = vec![xs.verif_dump()];
        let strip = |d: String| d.lines().filter(|l| !l.starts_with("insn_meter") && !l.starts_with("reverse_log_len")).collect::<Vec<_>>().join("\n");
        while xs.is_running() {
            if guard(|| xs.next()).map(|r| r.is_err()).unwrap_or(true) {
                return Some(format!("`{}`: a forward step failed", src));
            }
            dumps.push(xs.verif_dump());
        }
        for k in (0..dumps.len() - 1).rev() {
            if guard(|| xs.rnext()).is_err() {
                return Some(format!("`{}`: rnext panicked", src));
            }
            if strip(xs.verif_dump()) != strip(dumps[k].clone()) {
                return Some(format!("`{}`: state after rewinding to step {} differs from the original", src, k));
            }
        }
        for k in 1..dumps.len() {
            if guard(|| xs.next()).map(|r| r.is_err()).unwrap_or(true) {
                return Some(format!("`{}`: replayed step {} failed", src, k));
            }
            if strip(xs.verif_dump()) != strip(dumps[k].clone()) {
                return Some(format!("`{}`: state after replaying step {} differs from the original", src, k));
            }
        }
    }
    None
}

/// API-level witness for C02: what a failed instruction changed is not undone together with a later step
fn c02_failed_step() -> Option<String> {
    let mut xs = xs::boot_safe();
    xs.set_insn_limit(Some(50_000)).unwrap();
    xs.set_recording_enabled(true);
    if !matches!(guard(|| xs.eval("\"a\" 1 +")), Ok(Err(_))) {
        return Some("`\"a\" 1 +` did not fail".into());
    }
    let before = xs::render_stack(&xs);
    if xs.compile("11").is_err() || xs.next().is_err() || xs.rnext().is_err() {
        return Some("compile / next / rnext failed".into());
    }
    let after = xs::render_stack(&xs);
    if after != before {
        return Some(format!("one step forward and one back after a failed `+`: stack [{}], was [{}]", after, before));
    }
    None
}

/// API-level witness for C15: a stray `endenum` is rejected the same way by eval and by compile
fn c15_api() -> Option<String> {
    let mut kinds = Vec::new();
    for compile in [false, true] {
        let mut xs = xs::boot_safe();
        xs.set_insn_limit(Some(50_000)).unwrap();
        if xs.eval("7 8").is_err() {
            return Some("setup failed".into());
        }
        let src = "#( 0 endenum";
        let r = match guard(|| if compile { xs.compile(src) } else { xs.eval(src) }) {
            Ok(r) => r,
            Err(pm) => return Some(format!("panic: {}", pm)),
        };
        kinds.push(xs::render_res(&r));
    }
    if kinds[0] != kinds[1] {
        return Some(format!("`7 8` then `#( 0 endenum`: eval gives {}, compile gives {}", kinds[0], kinds[1]));
    }
    None
}

/// API-level witness for C06 (needs set_stack_limit): a read that cannot deliver its value does not consume input
fn c06_api() -> Option<String> {
    for word in ["u8", "i16be", "f32", "cstr", "nulbytestr"] {
        let mut xs = xs::boot_safe();
        if xs.eval("|41 42 43 00 45 46| open-bitstr 1 2").is_err() {
            return Some("setup failed".into());
        }
        xs.set_stack_limit(Some(2)).unwrap();
        let r = guard(|| xs.eval(word));
        xs.set_stack_limit(None).unwrap();
        if !matches!(r, Ok(Err(_))) {
            return Some(format!("`{}` with a full stack did not fail", word));
        }
        if xs.eval("offset").is_err() || xs::render_stack(&xs) != "1 | 2 | 0" {
            return Some(format!("`{}` refused by the stack limit moved the cursor: stack [{}]", word, xs::render_stack(&xs)));
        }
    }
    None
}

/// runs the witnesses of one property; returns (name, detail) of the failing ones
pub fn run_for(prop: &str) -> Vec<(String, String)> {
    let mut bad = Vec::new();
    for w in WITNESSES.iter().filter(|w| w.prop == prop) {
        if w.name.starts_with("placeholder") {
            continue;
        }
        if let Some(d) = run_one(w) {
            bad.push((w.name.to_string(), d));
        }
    }
    for (_, name, src, want) in OUT_WITNESSES.iter().filter(|w| w.0 == prop) {
        if let Some(d) = run_out(src, want) {
            bad.push((name.to_string(), d));
        }
    }
    if prop == "C15" {
        if let Some(d) = c15_api() {
            bad.push(("stray-endenum-same-error-in-every-drive".to_string(), d));
        }
    }
    if prop == "C06" {
        if let Some(d) = c06_api() {
            bad.push(("read-refused-by-full-stack-keeps-cursor".to_string(), d));
        }
    }
    if prop == "C02" {
        if let Some(d) = c02_failed_step() {
            bad.push(("failed-step-keeps-its-own-undo-group".to_string(), d));
        }
        if let Some(d) = c02_api() {
            bad.push(("reverse-local-and-foreach".to_string(), d));
        }
    }
    bad
}

pub fn count_for(prop: &str) -> usize {
    WITNESSES.iter().filter(|w| w.prop == prop && !w.name.starts_with("placeholder")).count() + OUT_WITNESSES.iter().filter(|w| w.0 == prop).count() + if prop == "C02" { 2 } else if prop == "C06" || prop == "C15" { 1 } else { 0 }
}
