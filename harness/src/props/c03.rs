// C03 — a cloned interpreter is an independent snapshot; re-running it is deterministic.
use crate::common::*;
use crate::prog;
use crate::xs;
use crate::PropDef;
use std::collections::VecDeque;
use xeh::prelude::*;

pub const DEF: PropDef = PropDef {
    id: "C03",
    rule: "histories of <=40 (quick) / <=150 (thorough) operations over a forest of up to 6 live interpreter states: Eval(i, src), CompileStep(i, src, a forward steps, b backward steps, run), Clone(i), CloneFrom(i, j) (Clone::clone_from into a live state), SetInput(i, bytes), Record(i, on/off), Drop(i), CatchUp(j, n). \
Sources come from a pool built to share and then mutate: bit-strings held in variables, on the stack and as the open input that are appended to / inverted / sliced / emitted / packed, vector push, map insert/remove, variable stores, let, definitions and redefinitions, late words resolved on one copy only, recording on one copy only, failing sources, tagged values and containers left on the stack and then tagged / pushed / inserted on one copy, plus control-flow programs from the C01 generator. \
Oracle 1 (isolation): before each operation the rendering of every live state is held (complete dump by content, variables, pending stdout); after an operation on state i every other state must render byte-identically. \
Oracle 2 (determinism): every clone first follows its original: each operation later applied to the original is queued for the clone together with the original's result and rendering, and is applied to the clone at a generated later time, interleaved with other activity; result, dump, variables and stdout must match at every position. Clones of clones follow the same way. \
Oracle 3 (clone-free control): at the end one state's whole lineage of operations is replayed on an interpreter that was never cloned; both must render identically (taking a snapshot must not change what the original computes). Operations include compile-only and run-pending, so clones are taken while compiled code is pending. A separate 1/12 of the cases loads the 2D canvas plugin, whose host object is shared between clones (reported under the known finding). \
Non-trivial = a state is mutated while a clone of it is alive and the mutation involves a bit-string / vector / map / variable reachable from both; distinct = hash of the operation list",
    assumptions: &["the non-deterministic / external words are stubbed (the quantifier excludes them)", "the pool has no word whose argument is an allocation size (int! / uint! widths): in a shifted stack any integer left by a generated program would become the width", "rendering is by content: bit-strings as bit sequences, not backing buffers"],
    max_len: 900,
    quick_cases: 40_000,
    thorough_cases: 150_000,
    case,
    systematic: None,
    both_profiles_quick: false,
    max_shrink_iters: 6000,
    exhaustive_note: None,
};

pub const KNOWN_D2: &str = "d2-*: the 2D canvas host object is shared between an interpreter and its clones";

const SETUP: &str = "|a5 5a 33| var b0 |0f| var b1 [ 1 2 ] var v0 { 1 \"a\" } var m0 0 var n0";

const POOL: [&str; 80] = [
    "1 bytes drop 12 bits close-bitstr",
    "2 bytes drop 5 bits close-bitstr",
    "1 bytes drop 12 bits",
    "bitstr-not",
    "dup bitstr-not bitstr>hex",
    "[ 17 171 205 ] >bitstr open-bitstr 1 bytes drop 12 bits close-bitstr",
    "12 bits close-bitstr",
    "4 bits drop 9 bits close-bitstr",
    "b0 open-bitstr 12 bits close-bitstr",
    "|f| swap bitstr-append",
    "|5| swap bitstr-append",
    "bitstr>hex",
    "dup bitstr-not",
    "12 bits close-bitstr",
    "|5| swap bitstr-append bitstr>hex",
    "|ff f| open-bitstr 6 bits close-bitstr",
    "b1 b0 bitstr-append ! b0",
    "b0 b1 bitstr-append ! b1",
    "b0 bitstr-not ! b1",
    "b0 bitstr-not ! b0",
    "b0 open-bitstr 4 bits ! b1 close-bitstr",
    "b0 open-bitstr 3 bits drop 8 bits close-bitstr |1| swap bitstr-append ! b1",
    "b0 open-bitstr 8 bits close-bitstr |dd| swap bitstr-append",
    "8 bits",
    "4 bits drop",
    "u8 drop",
    "1 bytes drop 2 bytes close-bitstr",
    "|dd| swap bitstr-append open-bitstr offset",
    "remain",
    "b1 emit",
    "u8! emit",
    "[ b0 \"x\" 65 ] >bitstr ! b0",
    "b0 b1 bitstr-xor ! b1",
    "|5| swap bitstr-append bitstr>hex",
    "12 bits",
    "3 v0 push ! v0",
    "v0 reverse ! v0",
    "v0 unbox",
    "m0 n0 \"k\" insert ! m0",
    "m0 \"a\" remove ! m0",
    "m0 b0 \"b\" insert ! m0",
    "n0 1 + ! n0",
    "n0 print",
    ": w1 n0 2 * ; w1",
    ": w1 n0 3 + ;",
    "w1",
    "late lw : uselw lw 1 + ;",
    ": lw 5 ;",
    "9 var lw",
    "uselw",
    "[ 7 8 ] let [ la lb ] la",
    "b0",
    "drop",
    "dup",
    "swap",
    "1 0 /",
    "nosuchword 5",
    "b0 b0 equal?",
    "input offset",
    "close-bitstr",
    // containers and tagged values left on the stack / in variables, then extended on one copy
    "7 \"first\" \"a\" insert-tag",
    "\"second\" \"b\" insert-tag tags",
    "\"third\" \"c\" insert-tag",
    "\"a\" remove-tag tags",
    "dup tags",
    "n0 \"t1\" \"k1\" insert-tag ! n0",
    "n0 \"t2\" \"k2\" insert-tag ! n0 n0 tags",
    "n0 \"k1\" get-tag",
    "v0 \"tv\" \"k\" insert-tag ! v0",
    "v0 { 1 \"p\" } with-tags",
    "v0",
    "m0",
    "9 swap push",
    "[ 5 6 ] concat",
    "sort",
    "5 \"z\" insert",
    "\"a\" remove",
    "b0 \"bt\" \"k\" insert-tag ! b0",
    "b0 tags",
    "\"s\" \"x\" \"k\" insert-tag",
];

const D2POOL: [&str; 6] = ["4 3 d2-resize", "7 d2-color! 1 1 d2-data!", "1 1 d2-data", "d2-width", "d2-clear", "2 2 d2-resize 9 d2-color! 0 0 d2-data!"];

#[derive(Clone, Debug, Hash)]
enum Op {
    Eval(String),
    CompileStep(String, usize, usize),
    SetInput(Vec<u8>),
    Record(bool),
    /// compile only: the code stays pending (a clone taken now shares it)
    Compile(String),
    /// run whatever is pending
    Run,
}

struct St {
    xs: Xstate,
    leader: Option<usize>, // id of the state this one follows
    id: usize,
    queue: VecDeque<(Op, String)>,
    /// every operation applied to this state since boot (a clone inherits its original's)
    hist: Vec<Op>,
}

fn rendering(xs: &mut Xstate) -> String {
    let mut s = xs.verif_dump();
    for (n, v) in xs.var_list() {
        s.push_str(&format!("var {} = {}\n", n, xs::render(v)));
    }
    s.push_str(&format!("stdout: {:?}\n", xs.stdout().map(|x| x.clone())));
    s
}

fn apply(xs: &mut Xstate, op: &Op) -> Result<String, String> {
    let r = match op {
        Op::Eval(src) => {
            let r = guard(|| xs.eval(src))?;
            xs::render_res(&r)
        }
        Op::CompileStep(src, a, b) => {
            let r = guard(|| {
                xs.compile(src)?;
                for _ in 0..*a {
                    xs.next()?;
                }
                for _ in 0..*b {
                    xs.rnext()?;
                }
                xs.run()
            })?;
            xs::render_res(&r)
        }
        Op::SetInput(bytes) => {
            let r = guard(|| xs.set_binary_input(xeh::bitstr::Bitstr::from(bytes.clone())))?;
            xs::render_res(&r)
        }
        Op::Record(on) => {
            xs.set_recording_enabled(*on);
            "Ok".to_string()
        }
        Op::Compile(src) => {
            let r = guard(|| xs.compile(src))?;
            xs::render_res(&r)
        }
        Op::Run => {
            let r = guard(|| xs.run())?;
            xs::render_res(&r)
        }
    };
    Ok(format!("result: {}\n{}", r, rendering(xs)))
}

fn first_diff_line(a: &str, b: &str) -> String {
    for (x, y) in a.lines().zip(b.lines()) {
        if x != y {
            let cut = |s: &str| if s.len() > 300 { format!("{}...", &s[..s.char_indices().nth(300).map(|c| c.0).unwrap_or(s.len())]) } else { s.to_string() };
            return format!("  {}\nvs\n  {}", cut(x), cut(y));
        }
    }
    format!("(different number of lines: {} vs {})", a.lines().count(), b.lines().count())
}

fn section_of(line_diff: &str) -> String {
    line_diff.trim_start().split(|c| c == ':' || c == ' ').next().unwrap_or("").to_string()
}

pub fn case(ch: &mut Choices, ctx: &CaseCtx) -> CaseOut {
    // 1 case in 25: the same guarantee seen through the real binary's /snapshot, /rollback and trial mode
    if ch.chance(1, 25) && crate::props::replbin::bin_path().is_some() {
        return crate::props::replbin::repl_case(ch, ctx, 0, "repl");
    }
    let mut out = CaseOut::default();
    let big = ctx.tier_thorough;
    let with_d2 = ch.chance(1, 12);
    let mut first = xs::fresh();
    first.intercept_output(true).unwrap();
    first.set_insn_limit(Some(20_000)).unwrap();
    if with_d2 {
        xeh::d2_plugin::load(&mut first).unwrap();
    }
    let _ = guard(|| first.eval(SETUP));
    let _ = first.set_binary_input(xeh::bitstr::Bitstr::from(vec![1u8, 2, 3, 0xab, 0xcd]));
    let mut next_id = 1usize;
    let mut states: Vec<St> = vec![St { xs: first, leader: None, id: 0, queue: VecDeque::new(), hist: Vec::new() }];
    let mut log: Vec<String> = vec![format!("state 0: {} ; input |01 02 03 ab cd|{}", SETUP, if with_d2 { " ; d2 plugin loaded" } else { "" })];
    let max_ops = if big { 150 } else { 40 };
    let nops = 2 + ch.below(max_ops);
    let mut shared_mutation = false;
    let mut clone_of_clone = false;
    let mut d2_used = false;
    let mut fail: Option<(String, String)> = None;
    // 1 history in 6 starts with a scripted opening on state 0: code is compiled but not yet run when the clone is
    // taken (a late word still unresolved, a cursor read, a let), then the pending code runs; the random history follows
    let mut forced: VecDeque<Option<Op>> = VecDeque::new(); // None = take a clone
    if ch.chance(1, 6) {
        let e = |s: &str| Some(Op::Eval(s.to_string()));
        let c = |s: &str| Some(Op::Compile(s.to_string()));
        let script: Vec<Option<Op>> = match ch.below(5) {
            0 => vec![e("late lw : uselw lw 1 + ;"), e(": lw 5 ;"), c("uselw uselw +"), None, Some(Op::Run)],
            1 => vec![e("late lw : uselw lw 1 + ;"), c("9 var lw uselw"), None, Some(Op::Run)],
            2 => vec![c("b0 open-bitstr 12 bits close-bitstr |f| swap bitstr-append ! b1"), None, Some(Op::Run)],
            3 => vec![c("[ 7 8 ] let [ la lb ] la lb + ! n0"), None, Some(Op::Run)],
            _ => vec![e("late lw : uselw lw 1 + ;"), e(": lw 5 ;"), Some(Op::CompileStep("uselw".to_string(), 0, 0)), None, e("uselw")],
        };
        forced = script.into_iter().collect();
    }
    'ops: for _ in 0..nops + forced.len() {
        let mut i = ch.below(states.len());
        let mut forced_op: Option<Op> = None;
        let mut forced_kind: Option<usize> = None;
        if let Some(f) = forced.pop_front() {
            i = 0;
            match f {
                None => forced_kind = Some(3),
                Some(op) => {
                    forced_kind = Some(0);
                    forced_op = Some(op);
                }
            }
        }
        let has_queue = !states[i].queue.is_empty();
        // ---- choose what happens to state i --------------------------------------------
        let kind = if let Some(k) = forced_kind {
            k
        } else if has_queue {
            if ch.chance(4, 5) {
                100
            } else {
                continue;
            }
        } else {
            ch.weighted(&[14, 3, 2, 4, 1, if states.len() > 1 { 1 } else { 0 }, if states.len() > 1 { 2 } else { 0 }, 2, 2])
        };
        if kind == 100 {
            // catch up: apply queued operations and compare with what the original did
            let n = 1 + ch.below(3);
            for _ in 0..n {
                let (op, want) = match states[i].queue.pop_front() {
                    Some(x) => x,
                    None => break,
                };
                let snaps: Vec<String> = states.iter_mut().map(|s| rendering(&mut s.xs)).collect();
                log.push(format!("state {} catches up: {:?}", states[i].id, op));
                states[i].hist.push(op.clone());
                let got = match apply(&mut states[i].xs, &op) {
                    Ok(g) => g,
                    Err(pm) => {
                        fail = Some((format!("panic: {}", pm), String::new()));
                        break 'ops;
                    }
                };
                if got != want {
                    let d = first_diff_line(&got, &want);
                    let opname = match &op {
                        Op::Eval(_) => "eval",
                        Op::CompileStep(..) => "compile+step",
                        Op::SetInput(_) => "set-input",
                        Op::Record(_) => "record",
                        Op::Compile(_) => "compile",
                        Op::Run => "run",
                    };
                    fail = Some((format!("determinism: a clone re-running the original's {} differs in {}", opname, section_of(&d)), format!("clone (state {}) vs original:\n{}", states[i].id, d)));
                    break 'ops;
                }
                if let Some(f) = check_isolation(&mut states, i, &snaps) {
                    fail = Some(f);
                    break 'ops;
                }
                let me = states[i].id;
                for s in states.iter_mut() {
                    if s.leader == Some(me) {
                        s.queue.push_back((op.clone(), got.clone()));
                    }
                }
            }
            continue;
        }
        if kind == 3 {
            // clone
            if states.len() >= 6 {
                continue;
            }
            let c = states[i].xs.clone();
            if states[i].leader.is_some() {
                clone_of_clone = true;
            }
            log.push(format!("state {} = clone of state {}", next_id, states[i].id));
            let lead = states[i].id;
            let h = states[i].hist.clone();
            states.push(St { xs: c, leader: Some(lead), id: next_id, queue: VecDeque::new(), hist: h });
            next_id += 1;
            continue;
        }
        if kind == 5 {
            log.push(format!("drop state {}", states[i].id));
            states.remove(i);
            continue;
        }
        if kind == 6 {
            // overwrite state i with a copy of state j through Clone::clone_from (what a rollback into an
            // existing state does): i then follows j like a fresh clone
            let j = ch.below(states.len());
            if j == i || !states[j].queue.is_empty() {
                continue;
            }
            let snaps: Vec<String> = states.iter_mut().map(|s| rendering(&mut s.xs)).collect();
            let src = states[j].xs.clone();
            log.push(format!("state {} .clone_from(state {})", states[i].id, states[j].id));
            // (clone_from on the live value, fed from a plain copy so that the borrow is simple)
            states[i].xs.clone_from(&src);
            drop(src);
            let lead = states[j].id;
            states[i].leader = Some(lead);
            states[i].queue.clear();
            states[i].hist = states[j].hist.clone();
            // a state restored from j must render exactly like j
            let (ri, rj) = (rendering(&mut states[i].xs), rendering(&mut states[j].xs));
            if ri != rj {
                let d = first_diff_line(&ri, &rj);
                fail = Some((format!("isolation: clone_from does not produce an exact copy ({})", section_of(&d)), d));
                break 'ops;
            }
            if let Some(f) = check_isolation(&mut states, i, &snaps) {
                fail = Some(f);
                break 'ops;
            }
            // followers of the overwritten state stop following it
            let me = states[i].id;
            for s in states.iter_mut() {
                if s.leader == Some(me) {
                    s.leader = None;
                    s.queue.clear();
                }
            }
            continue;
        }
        // a free operation: the state stops following its original
        states[i].leader = None;
        let op = if let Some(op) = forced_op {
            op
        } else {
            match kind {
            0 => {
                if with_d2 && ch.chance(1, 2) {
                    d2_used = true;
                    Op::Eval(D2POOL[ch.below(D2POOL.len())].to_string())
                } else if ch.chance(1, 8) {
                    let p = prog::generate(ch, prog::GenOpts { max_nodes: 12, max_depth: 3, allow_errors: true, allow_infinite: false, allow_print: true, allow_gap_locals: true, multi_chunk: false });
                    Op::Eval(p.sources.join(" "))
                } else {
                    Op::Eval(POOL[ch.below(POOL.len())].to_string())
                }
            }
            1 => Op::CompileStep(POOL[ch.below(POOL.len())].to_string(), ch.below(6), ch.below(4)),
            2 => {
                let n = ch.below(6);
                Op::SetInput(ch.bytes(n))
            }
            7 => Op::Compile(POOL[ch.below(POOL.len())].to_string()),
            8 => Op::Run,
            _ => Op::Record(ch.bool()),
            }
        };
        let followers_alive = states.iter().any(|s| s.leader == Some(states[i].id));
        if followers_alive || states.len() > 1 {
            if let Op::Eval(s) | Op::CompileStep(s, ..) = &op {
                if ["b0", "b1", "v0", "m0", "n0", "bits", "emit", "d2-", "tag", "push", "insert", "remove", "concat"].iter().any(|k| s.contains(k)) {
                    shared_mutation = true;
                }
            }
        }
        let snaps: Vec<String> = states.iter_mut().map(|s| rendering(&mut s.xs)).collect();
        log.push(format!("state {}: {:?}", states[i].id, op));
        states[i].hist.push(op.clone());
        let got = match apply(&mut states[i].xs, &op) {
            Ok(g) => g,
            Err(pm) => {
                fail = Some((format!("panic: {}", pm), String::new()));
                break 'ops;
            }
        };
        if let Some(f) = check_isolation(&mut states, i, &snaps) {
            fail = Some(f);
            break 'ops;
        }
        let me = states[i].id;
        for s in states.iter_mut() {
            if s.leader == Some(me) {
                s.queue.push_back((op.clone(), got.clone()));
            }
        }
    }
    // at the end every clone catches up completely
    if fail.is_none() {
        'fin: for i in 0..states.len() {
            while let Some((op, want)) = states[i].queue.pop_front() {
                log.push(format!("state {} catches up: {:?}", states[i].id, op));
                states[i].hist.push(op.clone());
                match apply(&mut states[i].xs, &op) {
                    Ok(got) => {
                        if got != want {
                            let d = first_diff_line(&got, &want);
                            fail = Some((format!("determinism: a clone re-running the original's operation differs in {}", section_of(&d)), format!("clone (state {}) vs original:\n{}", states[i].id, d)));
                            break 'fin;
                        }
                        let me = states[i].id;
                        for s in states.iter_mut() {
                            if s.leader == Some(me) {
                                s.queue.push_back((op.clone(), got.clone()));
                            }
                        }
                    }
                    Err(pm) => {
                        fail = Some((format!("panic: {}", pm), String::new()));
                        break 'fin;
                    }
                }
            }
        }
    }
    // Oracle 3 (the snapshot does not change the original either): one state's whole history is replayed on an
    // interpreter that never had a clone; it must end in the same rendering
    if fail.is_none() && !with_d2 && !states.is_empty() {
        let k = ch.below(states.len());
        let mut solo = xs::fresh();
        solo.intercept_output(true).unwrap();
        solo.set_insn_limit(Some(20_000)).unwrap();
        let _ = guard(|| solo.eval(SETUP));
        let _ = solo.set_binary_input(xeh::bitstr::Bitstr::from(vec![1u8, 2, 3, 0xab, 0xcd]));
        let mut ok = true;
        for op in &states[k].hist {
            if apply(&mut solo, op).is_err() {
                ok = false;
                break;
            }
        }
        if ok {
            let (a, b) = (rendering(&mut states[k].xs), rendering(&mut solo));
            if a != b {
                let d = first_diff_line(&a, &b);
                fail = Some((format!("clone-free control: a state with clones in its history differs in {} from the same history without any clone", section_of(&d)), format!("state {} vs an interpreter that replayed its {} operations without ever being cloned:\n{}", states[k].id, states[k].hist.len(), d)));
            }
        }
    }
    if let Some((sig, detail)) = fail {
        let sig = if d2_used && !sig.starts_with("panic") { KNOWN_D2.to_string() } else { sig };
        out.fail(sig, format!("{}\nhistory:\n{}", detail, log.join("\n")));
    }
    out.nontrivial = shared_mutation;
    if shared_mutation {
        out.class("mutation-of-shared-value-with-clone-alive");
    }
    if clone_of_clone {
        out.class("clone-of-clone");
    }
    if with_d2 {
        out.class("d2-plugin-loaded");
    } else {
        out.excluded_known = 1;
    }
    out.hash = hash_of(&log);
    if ctx.want_render || out.fail.is_some() {
        out.render = Some(log.join("\n"));
    }
    out
}

fn check_isolation(states: &mut Vec<St>, i: usize, snaps: &[String]) -> Option<(String, String)> {
    for (j, s) in states.iter_mut().enumerate() {
        if j == i {
            continue;
        }
        let now = rendering(&mut s.xs);
        if now != snaps[j] {
            let d = first_diff_line(&now, &snaps[j]);
            return Some((format!("isolation: activity on one state changed another state's {}", section_of(&d)), format!("state {} changed:\n{}", s.id, d)));
        }
    }
    None
}
