// C04 — bit-string operations depend only on the bit sequence.
// Histories over a pool of (Bitstr, Vec<bool>) pairs with explicit control of
// ownership (moved / shared / parent dropped / borrowed static).
use crate::common::*;
use crate::PropDef;
use xeh::bitstr::{Bitstr, BitvecBuilder};

pub const DEF: PropDef = PropDef {
    id: "C04",
    rule: "random histories (<=25 ops quick, <=60 thorough) over a pool of bit-strings built through the public API \
(from Vec, from &'static [u8], from_hex_str, BitvecBuilder; read/peek/seek/substr/split_at/append/insert/invert/detach/clone/drop); \
after every op the result and EVERY pool entry are compared with a Vec<bool> model through bits(), iter8(), len, hex, to_bytes, \
to_bytes_with_padding, bytestr, slice and == in both directions. Non-trivial = an op whose receiver or argument is unaligned \
(start%8!=0 or end%8!=0), or has backing bytes outside its range, or is borrowed; distinct = hash of the op sequence",
    assumptions: &[
        "operations are driven through the public Rust API of xeh::bitstr only",
        "sizes: values up to 96 bits (quick) / 640 bits (thorough)",
    ],
    max_len: 400,
    quick_cases: 100_000,
    thorough_cases: 1_600_000,
    case,
    systematic: None,
    both_profiles_quick: true,
    max_shrink_iters: 6000,
    exhaustive_note: None,
};

static STATICS: [&[u8]; 4] = [b"", b"\xff", b"\x12\x34\x56", b"\x80\x00\x01\xfe\x7f\xaa\x55\x0f\xf0"];

#[derive(Clone)]
struct Ent {
    bs: Bitstr,
    model: Vec<bool>,
    borrowed: bool,
}

fn bits_of_bytes(b: &[u8]) -> Vec<bool> {
    let mut v = Vec::with_capacity(b.len() * 8);
    for x in b {
        for i in (0..8).rev() {
            v.push((x >> i) & 1 == 1);
        }
    }
    v
}

fn model_iter8(m: &[bool]) -> Vec<(u8, u32)> {
    m.chunks(8)
        .map(|c| {
            let mut v = 0u8;
            for b in c {
                v = (v << 1) | (*b as u8);
            }
            (v, c.len() as u32)
        })
        .collect()
}

fn model_hex(m: &[bool]) -> String {
    let mut s = String::new();
    for (v, n) in model_iter8(m) {
        if n > 4 {
            s.push(char::from_digit((v >> 4) as u32, 16).unwrap());
        }
        s.push(char::from_digit((v & 0xf) as u32, 16).unwrap());
    }
    s
}

fn unaligned(e: &Ent) -> bool {
    e.bs.start() % 8 != 0 || e.bs.end() % 8 != 0
}

/// full comparison of one entry with its model; returns description of first mismatch
fn check_entry(e: &Ent) -> Option<String> {
    let bs = &e.bs;
    let m = &e.model;
    if bs.len() != m.len() {
        return Some(format!("len {} != model {}", bs.len(), m.len()));
    }
    if bs.end() < bs.start() || bs.end() - bs.start() != m.len() {
        return Some("start/end inconsistent with len".into());
    }
    let got: Vec<bool> = bs.bits().map(|b| b != 0).collect();
    if &got != m {
        return Some(format!("bits() {} != model {}", show(&got), show(m)));
    }
    let i8: Vec<(u8, u32)> = bs.iter8().collect();
    if i8 != model_iter8(m) {
        return Some(format!("iter8() {:?} != model {:?}", i8, model_iter8(m)));
    }
    if bs.to_hex_string() != model_hex(m) {
        return Some(format!("to_hex_string {} != model {}", bs.to_hex_string(), model_hex(m)));
    }
    let padded: Vec<u8> = model_iter8(m).iter().map(|x| x.0).collect();
    if bs.to_bytes_with_padding() != padded {
        return Some("to_bytes_with_padding differs".into());
    }
    let is_bytes = m.len() % 8 == 0;
    if bs.is_bytestr() != is_bytes {
        return Some("is_bytestr differs".into());
    }
    match (bs.to_bytes(), is_bytes) {
        (Some(b), true) if b == padded => {}
        (None, false) => {}
        (other, _) => return Some(format!("to_bytes {:?} (byte multiple: {})", other, is_bytes)),
    }
    match (bs.bytestr(), is_bytes) {
        (Some(b), true) if b.as_ref() == &padded[..] => {}
        (None, false) => {}
        (other, _) => return Some(format!("bytestr {:?} (byte multiple: {})", other, is_bytes)),
    }
    if let Some(sl) = bs.slice() {
        if !is_bytes || sl != &padded[..] {
            return Some("slice() differs".into());
        }
    }
    None
}

fn show(m: &[bool]) -> String {
    let mut s: String = m.iter().take(160).map(|b| if *b { '1' } else { '0' }).collect();
    if m.len() > 160 {
        s.push_str("...");
    }
    s
}

fn describe(e: &Ent) -> String {
    format!("[start={} end={} {}{}]", e.bs.start(), e.bs.end(), show(&e.model), if e.borrowed { " static" } else { "" })
}

pub fn case(ch: &mut Choices, ctx: &CaseCtx) -> CaseOut {
    let mut out = CaseOut::default();
    let maxbytes: usize = if ctx.tier_thorough { 80 } else { 12 };
    let maxops = if ctx.tier_thorough { 60 } else { 25 };
    let nops = 1 + ch.below(maxops);
    let mut pool: Vec<Ent> = Vec::new();
    let mut log: Vec<String> = Vec::new();
    let mut ophash: Vec<u64> = Vec::new();
    let mut nontrivial = false;

    for step in 0..nops {
        // op kinds: constructors are favoured while the pool is small
        let kind = if pool.is_empty() { ch.below(4) } else { ch.weighted(&[3, 2, 1, 1, 6, 3, 3, 3, 3, 8, 5, 5, 3, 2, 4]) };
        let pick = |ch: &mut Choices, pool: &Vec<Ent>| ch.below(pool.len());
        let mut desc;
        let mut touched: Vec<usize> = Vec::new();
        match kind {
            0 => {
                let n = ch.below(maxbytes + 1);
                let bytes = ch.bytes(n);
                desc = format!("from(vec {:02x?})", bytes);
                pool.push(Ent { model: bits_of_bytes(&bytes), bs: Bitstr::from(bytes), borrowed: false });
            }
            1 => {
                let n = ch.below(maxbytes * 8 + 1);
                let mut b = BitvecBuilder::default();
                let mut m = Vec::new();
                for _ in 0..n {
                    let x = ch.bool();
                    b.append_bit(x as u8);
                    m.push(x);
                }
                desc = format!("builder({})", show(&m));
                pool.push(Ent { bs: b.finish(), model: m, borrowed: false });
            }
            2 => {
                let i = ch.below(STATICS.len());
                desc = format!("from(static #{})", i);
                pool.push(Ent { bs: Bitstr::from(STATICS[i]), model: bits_of_bytes(STATICS[i]), borrowed: true });
                nontrivial = true;
            }
            3 => {
                let n = ch.below(maxbytes * 2 + 1);
                let mut s = String::new();
                let mut m = Vec::new();
                for _ in 0..n {
                    let d = ch.below(16) as u32;
                    if ch.chance(1, 6) {
                        s.push(' ');
                    }
                    let c = char::from_digit(d, 16).unwrap();
                    s.push(if ch.bool() { c.to_ascii_uppercase() } else { c });
                    for i in (0..4).rev() {
                        m.push((d >> i) & 1 == 1);
                    }
                }
                desc = format!("from_hex_str({:?})", s);
                match Bitstr::from_hex_str(&s) {
                    Ok(bs) => pool.push(Ent { bs, model: m, borrowed: false }),
                    Err(p) => {
                        out.fail("from_hex_str rejects valid hex", format!("{:?} -> Err({})", s, p));
                    }
                }
            }
            4 => {
                // read(n): moves the receiver's start
                let i = pick(ch, &pool);
                let len = pool[i].model.len();
                let n = arg_len(ch, len);
                desc = format!("#{}.read({})", i, n);
                touched.push(i);
                let r = guard(|| pool[i].bs.read(n));
                match r {
                    Err(p) => out.fail(format!("panic in read: {}", p), desc.clone()),
                    Ok(Some(bs)) => {
                        if n > len {
                            out.fail("read beyond the end succeeded", desc.clone());
                        } else {
                            let m: Vec<bool> = pool[i].model[..n].to_vec();
                            pool[i].model.drain(..n);
                            let borrowed = pool[i].borrowed;
                            pool.push(Ent { bs, model: m, borrowed });
                        }
                    }
                    Ok(None) => {
                        if n <= len {
                            out.fail("read inside the value failed", desc.clone());
                        }
                    }
                }
            }
            5 => {
                let i = pick(ch, &pool);
                let len = pool[i].model.len();
                let n = arg_len(ch, len);
                desc = format!("#{}.peek({})", i, n);
                touched.push(i);
                match guard(|| pool[i].bs.peek(n)) {
                    Err(p) => out.fail(format!("panic in peek: {}", p), desc.clone()),
                    Ok(Some(bs)) if n <= len => {
                        let m = pool[i].model[..n].to_vec();
                        let borrowed = pool[i].borrowed;
                        pool.push(Ent { bs, model: m, borrowed });
                    }
                    Ok(None) if n > len => {}
                    Ok(r) => out.fail("peek: wrong success/failure", format!("{} -> {:?}", desc, r.map(|b| b.len()))),
                }
            }
            6 => {
                // seek(absolute pos)
                let i = pick(ch, &pool);
                let (st, en) = (pool[i].bs.start(), pool[i].bs.end());
                let pos = arg_pos(ch, st, en);
                desc = format!("#{}.seek({}) [start={} end={}]", i, pos, st, en);
                touched.push(i);
                let ok = st <= pos && pos <= en;
                match guard(|| pool[i].bs.seek(pos)) {
                    Err(p) => out.fail(format!("panic in seek: {}", p), desc.clone()),
                    Ok(Some(bs)) if ok => {
                        let m = pool[i].model[pos - st..].to_vec();
                        let borrowed = pool[i].borrowed;
                        pool.push(Ent { bs, model: m, borrowed });
                    }
                    Ok(None) if !ok => {}
                    Ok(_) => out.fail("seek: wrong success/failure", desc.clone()),
                }
            }
            7 => {
                let i = pick(ch, &pool);
                let (st, en) = (pool[i].bs.start(), pool[i].bs.end());
                let a = arg_pos(ch, st, en);
                let b = arg_pos(ch, st, en);
                desc = format!("#{}.substr({},{}) [start={} end={}]", i, a, b, st, en);
                touched.push(i);
                let ok = a <= b && st <= a && b <= en;
                match guard(|| pool[i].bs.substr(a, b)) {
                    Err(p) => out.fail(format!("panic in substr: {}", p), desc.clone()),
                    Ok(Some(bs)) if ok => {
                        let m = pool[i].model[a - st..b - st].to_vec();
                        let borrowed = pool[i].borrowed;
                        pool.push(Ent { bs, model: m, borrowed });
                    }
                    Ok(None) if !ok => {}
                    Ok(_) => out.fail("substr: wrong success/failure", desc.clone()),
                }
            }
            8 => {
                let i = pick(ch, &pool);
                let len = pool[i].model.len();
                let k = arg_len(ch, len);
                desc = format!("#{}.split_at({})", i, k);
                touched.push(i);
                match guard(|| pool[i].bs.split_at(k)) {
                    Err(p) => out.fail(format!("panic in split_at: {}", p), desc.clone()),
                    Ok(Some((l, r))) if k <= len => {
                        let borrowed = pool[i].borrowed;
                        let ml = pool[i].model[..k].to_vec();
                        let mr = pool[i].model[k..].to_vec();
                        pool.push(Ent { bs: l, model: ml, borrowed });
                        pool.push(Ent { bs: r, model: mr, borrowed });
                    }
                    Ok(None) if k > len => {}
                    Ok(_) => out.fail("split_at: wrong success/failure", desc.clone()),
                }
            }
            9 => {
                // append: receiver moved out of the pool or cloned
                let i = pick(ch, &pool);
                let moved = ch.bool();
                let recv = if moved { pool.remove(i) } else { pool[i].clone() };
                if pool.is_empty() {
                    pool.push(recv.clone());
                }
                let j = pick(ch, &pool);
                desc = format!("{}{} .append(#{} {})", if moved { "moved " } else { "clone of " }, describe(&recv), j, describe(&pool[j]));
                touched.push(j);
                if unaligned(&recv) || unaligned(&pool[j]) || recv.borrowed {
                    nontrivial = true;
                }
                let tail = pool[j].bs.clone();
                let mut m = recv.model.clone();
                m.extend_from_slice(&pool[j].model);
                match guard(move || recv.bs.append(&tail)) {
                    Err(p) => out.fail(format!("panic in append: {}", p), desc.clone()),
                    Ok(bs) => pool.push(Ent { bs, model: m, borrowed: false }),
                }
            }
            10 => {
                let i = pick(ch, &pool);
                let moved = ch.bool();
                let recv = if moved { pool.remove(i) } else { pool[i].clone() };
                if pool.is_empty() {
                    pool.push(recv.clone());
                }
                let j = pick(ch, &pool);
                let len = recv.model.len();
                let k = arg_len(ch, len);
                desc = format!("{}{} .insert({}, #{} {})", if moved { "moved " } else { "clone of " }, describe(&recv), k, j, describe(&pool[j]));
                touched.push(j);
                if unaligned(&recv) || unaligned(&pool[j]) || k % 8 != 0 {
                    nontrivial = true;
                }
                let ins = pool[j].bs.clone();
                let mut m = recv.model.clone();
                if k <= len {
                    let tail = m.split_off(k);
                    m.extend_from_slice(&pool[j].model);
                    m.extend_from_slice(&tail);
                }
                match guard(move || recv.bs.insert(k, &ins)) {
                    Err(p) => out.fail(format!("panic in insert: {}", p), desc.clone()),
                    Ok(Some(bs)) if k <= len => pool.push(Ent { bs, model: m, borrowed: false }),
                    Ok(None) if k > len => {}
                    Ok(_) => out.fail("insert: wrong success/failure", desc.clone()),
                }
            }
            11 => {
                let i = pick(ch, &pool);
                let moved = ch.bool();
                let recv = if moved { pool.remove(i) } else { pool[i].clone() };
                desc = format!("{}{} .invert()", if moved { "moved " } else { "clone of " }, describe(&recv));
                if unaligned(&recv) || recv.borrowed {
                    nontrivial = true;
                }
                let m: Vec<bool> = recv.model.iter().map(|b| !b).collect();
                match guard(move || recv.bs.invert()) {
                    Err(p) => out.fail(format!("panic in invert: {}", p), desc.clone()),
                    Ok(bs) => pool.push(Ent { bs, model: m, borrowed: false }),
                }
            }
            12 => {
                let i = pick(ch, &pool);
                let moved = ch.bool();
                let recv = if moved { pool.remove(i) } else { pool[i].clone() };
                desc = format!("{}{} .detach()", if moved { "moved " } else { "clone of " }, describe(&recv));
                if unaligned(&recv) {
                    nontrivial = true;
                }
                let m = recv.model.clone();
                let borrowed = recv.borrowed && moved;
                match guard(move || recv.bs.detach()) {
                    Err(p) => out.fail(format!("panic in detach: {}", p), desc.clone()),
                    Ok(bs) => pool.push(Ent { bs, model: m, borrowed }),
                }
            }
            13 => {
                let i = pick(ch, &pool);
                desc = format!("clone #{}", i);
                let e = pool[i].clone();
                pool.push(e);
            }
            _ => {
                // drop an entry: another entry may become the unique owner of a
                // buffer that is longer than its range
                let i = pick(ch, &pool);
                desc = format!("drop #{}", i);
                pool.remove(i);
                if !pool.is_empty() {
                    nontrivial = true;
                }
            }
        }
        ophash.push(hash_of(&desc));
        if ctx.want_render || out.fail.is_some() {
            log.push(format!("{}: {}", step, desc));
        } else {
            desc.clear();
        }
        if out.fail.is_some() {
            break;
        }
        // invariant: every pool entry still equals its model
        for (idx, e) in pool.iter().enumerate() {
            match guard(|| check_entry(e)) {
                Err(p) => {
                    out.fail(format!("panic while observing a value: {}", p), format!("entry #{} {}", idx, describe(e)));
                    break;
                }
                Ok(Some(msg)) => {
                    let what = msg.split(' ').next().unwrap_or("").to_string();
                    let opname = op_name(kind);
                    out.fail(format!("{}: {} differs from model", opname, what), format!("after step {}, entry #{}: {}", step, idx, msg));
                    break;
                }
                Ok(None) => {}
            }
        }
        if out.fail.is_some() {
            break;
        }
        // equality must coincide with model equality, both directions
        'eq: for a in 0..pool.len() {
            for b in 0..pool.len() {
                let want = pool[a].model == pool[b].model;
                let got = pool[a].bs == pool[b].bs;
                if want != got {
                    out.fail(
                        "==: differs from model equality",
                        format!("after step {}: #{} {} == #{} {} gives {}", step, a, describe(&pool[a]), b, describe(&pool[b]), got),
                    );
                    break 'eq;
                }
            }
        }
        if out.fail.is_some() {
            break;
        }
        while pool.len() > 7 {
            pool.remove(0);
        }
    }
    out.nontrivial = nontrivial;
    if nontrivial {
        out.class("unaligned-or-slack-or-borrowed");
    }
    out.hash = hash_of(&ophash);
    if ctx.want_render || out.fail.is_some() {
        out.render = Some(log.join("\n"));
    }
    out
}

fn op_name(kind: usize) -> &'static str {
    ["from-vec", "builder", "from-static", "from-hex", "read", "peek", "seek", "substr", "split_at", "append", "insert", "invert", "detach", "clone", "drop"]
        .get(kind)
        .copied()
        .unwrap_or("drop")
}

/// a length argument: mostly inside, sometimes just past the end, rarely huge
fn arg_len(ch: &mut Choices, len: usize) -> usize {
    match ch.weighted(&[12, 2, 1]) {
        0 => ch.below(len + 1),
        1 => len + 1 + ch.below(70),
        _ => *[usize::MAX, usize::MAX - 7, usize::MAX / 2 + 1, 1usize << 61, (1usize << 61) + 1].get(ch.below(5)).unwrap(),
    }
}

fn arg_pos(ch: &mut Choices, st: usize, en: usize) -> usize {
    match ch.weighted(&[12, 2, 2, 1]) {
        0 => st + ch.below(en - st + 1),
        1 => en + 1 + ch.below(70),
        2 => ch.below(st + 1),
        _ => *[usize::MAX, usize::MAX - 7, usize::MAX / 2 + 1].get(ch.below(3)).unwrap(),
    }
}
