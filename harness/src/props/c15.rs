// C15 — how a program is driven does not change what it does.
use crate::common::*;
use crate::ext;
use crate::xs;
use crate::PropDef;
use xeh::prelude::*;

pub const DEF: PropDef = PropDef {
    id: "C15",
    rule: "programs = control-flow backbone + snippets covering builders, foreach, let, late words, cursor reads, tags, collection words, meta blocks, emit, and failing tails (run-time, build-time, in a meta block); 1 in 6 instead a straight-line program over the whole native dictionary (the typed table of C13); 1 case in 4 runs under a small data stack limit, \
submitted to an idle interpreter that already holds a generated prelude; six drives on clones: eval / compile+run / compile+next()* x recording off/on. All six must agree on the result value, the error location \
(token range and source name), the dump sections ip, data stack (with hidden base), return stack with locals, loops, builder marks, heap, all variables and stdout; mode/nesting/pending-flow bookkeeping is compared only for \
succeeding programs (what a failed submission leaves there is C10's subject). Non-trivial = >=10 instructions executed and >=3 distinct feature kinds; distinct = hash of prelude+source",
    assumptions: &["the reverse log and the instruction meter are excluded, as the statement says"],
    max_len: 500,
    quick_cases: 48_000,
    thorough_cases: 300_000,
    case,
    systematic: None,
    both_profiles_quick: false,
    max_shrink_iters: 6000,
    exhaustive_note: None,
};

const INSN_LIMIT: usize = 30_000;

#[derive(PartialEq, Debug, Clone)]
struct Obs {
    result: String,
    built: bool,
    location: String,
    sections: Vec<(&'static str, String)>,
    bookkeeping: Vec<(&'static str, String)>,
    vars: Vec<(String, String)>,
    stdout: String,
    visible_stack: String,
    insns: usize,
    /// result and location of retrying once after a run-time failure (run() / next())
    retry: String,
}

fn observe(xs: &mut Xstate, result: &Xresult, built: bool) -> Obs {
    let loc = xs
        .last_err_location()
        .map(|l| format!("{}:{:?}@{:?}", l.filename, l.token.range(), l.token.as_str()))
        .unwrap_or_else(|| "-".into());
    let all = xs.verif_sections();
    let pick = |names: &[&'static str]| -> Vec<(&'static str, String)> { all.iter().filter(|(k, _)| names.contains(k)).cloned().collect() };
    Obs {
        result: xs::render_res(result),
        built,
        location: if result.is_err() { loc } else { "-".into() },
        sections: pick(&["ip", "data_stack", "ds_base", "return_stack", "loops", "special", "heap"]),
        bookkeeping: pick(&["mode", "nested_len", "flow_len"]),
        vars: xs::vars(xs),
        visible_stack: xs::render_stack(xs),
        stdout: xs::take_stdout(xs),
        insns: xs::section_num(xs, "insn_meter"),
        retry: String::new(),
    }
}

/// two-source histories: (first source tail, second source) - the second source redefines / updates what the first used
const SCENARIOS: [(&str, &str); 7] = [
    ("late W_ : Q_ W_ ; 1 var W_ Q_", "2 var W_ Q_"),
    ("late F_ : G_ F_ 1 + ; : F_ 10 ; G_", ": F_ 20 ; G_"),
    ("5 var cv_", "cv_ 1 + ! cv_ cv_"),
    (": rw_ 1 ; rw_", ": rw_ 2 ; rw_"),
    ("[ 1 2 ] var sv_ sv_ \"kg\" \"unit\" insert-tag ! sv_", "sv_ \"unit\" get-tag sv_ length"),
    ("255 var hx_ hx_ ^hex ! hx_", "hx_ print hx_ ^dec ! hx_ hx_ print"),
    ("1 0 /", "7"),
];

fn drive_one(xs: &mut Xstate, src: &str, mode: usize) -> Result<Obs, String> {
    xs.set_insn_limit(Some(INSN_LIMIT)).unwrap();
    let r = guard(|| match mode {
        0 => {
            let r = xs.eval(src);
            // a source is "built" if the failure (if any) came from running it
            (r, true)
        }
        1 => match xs.compile(src) {
            Ok(()) => (xs.run(), true),
            Err(e) => (Err(e), false),
        },
        _ => match xs.compile(src) {
            Ok(()) => {
                let mut r = Ok(());
                let mut n = 0usize;
                while xs.is_running() {
                    r = xs.next();
                    n += 1;
                    if r.is_err() || n > INSN_LIMIT + 8 {
                        break;
                    }
                }
                (r, true)
            }
            Err(e) => (Err(e), false),
        },
    })?;
    Ok(observe(xs, &r.0, r.1))
}

fn drive(base: &Xstate, sources: &[String], mode: usize, rec: bool) -> Result<Vec<Obs>, String> {
    let mut xs = base.clone();
    xs.set_recording_enabled(rec);
    let mut v = Vec::new();
    for (i, src) in sources.iter().enumerate() {
        let mut o = drive_one(&mut xs, src, mode)?;
        if i + 1 == sources.len() && o.result != "Ok" && o.built && mode > 0 {
            // retrying the failed instruction must behave the same under run() and next()
            let again = guard(|| if mode == 1 { xs.run() } else { xs.next() })?;
            if again.is_err() {
                let loc = xs.last_err_location().map(|l| format!("{}:{:?}", l.filename, l.token.range())).unwrap_or_else(|| "-".into());
                o.retry = format!("{} at {} stack [{}]", xs::render_res(&again), loc, xs::render_stack(&xs));
            }
        }
        v.push(o);
    }
    Ok(v)
}

fn diff(a: &Obs, b: &Obs, failing_build: bool, failing: bool) -> Option<String> {
    if a.result != b.result {
        return Some(format!("result: {} vs {}", a.result, b.result));
    }
    if a.location != b.location {
        return Some(format!("error location: {} vs {}", a.location, b.location));
    }
    if a.stdout != b.stdout {
        return Some(format!("stdout: {:?} vs {:?}", a.stdout, b.stdout));
    }
    if a.vars != b.vars {
        let d = a.vars.iter().zip(b.vars.iter()).find(|(x, y)| x != y);
        return Some(format!("variables: {:?}", d));
    }
    if a.visible_stack != b.visible_stack {
        return Some(format!("visible stack: [{}] vs [{}]", a.visible_stack, b.visible_stack));
    }
    if failing_build {
        return None;
    }
    if !a.retry.is_empty() && !b.retry.is_empty() && a.retry != b.retry {
        return Some(format!("retry after the failure: {} vs {}", a.retry, b.retry));
    }
    for (x, y) in a.sections.iter().zip(b.sections.iter()) {
        if x != y {
            return Some(format!("section {}: {} vs {}", x.0, x.1, y.1));
        }
    }
    if !failing {
        for (x, y) in a.bookkeeping.iter().zip(b.bookkeeping.iter()) {
            if x != y {
                return Some(format!("section {}: {} vs {}", x.0, x.1, y.1));
            }
        }
    }
    None
}

pub fn case(ch: &mut Choices, ctx: &CaseCtx) -> CaseOut {
    let mut out = CaseOut::default();
    let big = ctx.tier_thorough;
    // prelude
    let pre = ext::generate(ch, &ext::ExtOpts { meta: true, failing: false, max_items: 3, backbone_nodes: 12 });
    let mut p = ext::generate(ch, &ext::ExtOpts { meta: true, failing: true, max_items: if big { 10 } else { 6 }, backbone_nodes: if big { 60 } else { 25 } });
    if ch.chance(1, 5) {
        // "all programs": a token soup over the whole live dictionary and every literal type (mostly failing early,
        // but every drive mode must fail the same way)
        let n = 1 + ch.below(14);
        let toks: Vec<String> = (0..n).map(|_| crate::props::c08::soup_token(ch)).collect();
        p.source = toks.join(" ");
        p.features = vec!["token-soup"];
    }
    else if ch.chance(1, 6) {
        // every native word with arguments that make it succeed (the typed table of C13), a binary input open
        p = ext::dictionary(ch, if big { 10 } else { 5 });
    }
    let mut base = xs::fresh();
    base.intercept_output(true).unwrap();
    base.set_insn_limit(Some(INSN_LIMIT)).unwrap();
    // 1 case in 4: a small data stack limit is configured as well - every drive must hit it at the same point
    let stack_limit = if ch.chance(1, 4) { Some(2 + ch.below(12)) } else { None };
    let use_prelude = ch.chance(2, 3);
    let mut prelude_src = String::new();
    if use_prelude {
        let mut cand = base.clone();
        if let Ok(Ok(())) = guard(|| cand.eval(&pre.source)) {
            let _ = cand.read_stdout();
            base = cand;
            prelude_src = pre.source.clone();
        }
    }
    if let Some(l) = stack_limit {
        base.set_stack_limit(Some(l + base.data_depth())).unwrap();
        out.class("stack-limit-configured");
    }
    // 1 case in 3 is a two-source history: the second source redefines / updates what the first one used
    let mut sources: Vec<String> = vec![p.source.clone()];
    let mut two = false;
    if ch.chance(1, 3) {
        let (first, second) = SCENARIOS[ch.below(SCENARIOS.len())];
        let tag = format!("{}", ch.below(3));
        sources[0] = format!("{}\n{}", first.replace('_', &tag), p.source);
        sources.push(second.replace('_', &tag));
        two = true;
    }
    let names = ["eval", "compile+run", "compile+step"];
    let mut obs: Vec<(String, Vec<Obs>)> = Vec::new();
    for mode in 0..3 {
        for rec in [false, true] {
            match drive(&base, &sources, mode, rec) {
                Ok(o) => obs.push((format!("{}{}", names[mode], if rec { "+rec" } else { "" }), o)),
                Err(pm) => {
                    out.fail(format!("panic: {}", pm), format!("drive {} recording {}", names[mode], rec));
                }
            }
        }
    }
    if out.fail.is_none() {
        'outer: for k in 0..sources.len() {
            // was the source rejected at build time? (compile failed)
            let failing_build = obs.iter().any(|(_, o)| !o[k].built);
            let failing = obs[0].1[k].result != "Ok";
            for i in 0..obs.len() {
                for j in i + 1..obs.len() {
                    let (n0, o0) = (&obs[i].0, &obs[i].1[k]);
                    let (n, o) = (&obs[j].0, &obs[j].1[k]);
                    if let Some(d) = diff(o0, o, failing_build, failing) {
                        let what = d.split(':').next().unwrap_or("").to_string();
                        out.fail(
                            format!("{} vs {}: {} differs{}{}", n0, n, what, if failing { " (failing program)" } else { "" }, if k > 0 { " (second source)" } else { "" }),
                            format!("source #{}: {} vs {}: {}", k, n0, n, d),
                        );
                        break 'outer;
                    }
                }
            }
        }
        let kinds = p.features.len();
        let first = &obs[0].1[0];
        out.nontrivial = (first.insns >= 10 && kinds >= 3) || (p.features.contains(&"token-soup") && first.insns >= 3) || (p.features.contains(&"dictionary-words") && first.insns >= 6) || two;
        let failing_build = obs.iter().any(|(_, o)| !o[0].built);
        let failing = first.result != "Ok";
        if failing_build {
            out.class("rejected-at-build");
        } else if failing {
            out.class("fails-at-run-time");
        } else {
            out.class("succeeds");
        }
        if two {
            out.class("two-source-history");
        }
    }
    for f in &p.features {
        out.class(f);
    }
    out.hash = hash_of(&(prelude_src.clone(), sources.clone()));
    if ctx.want_render || out.fail.is_some() {
        out.render = Some(format!("prelude: {}\n{}", prelude_src.replace('\n', "\u{23ce}"), sources.iter().enumerate().map(|(i, s)| format!("source #{}: {}", i, s.replace('\n', "\u{23ce}"))).collect::<Vec<_>>().join("\n")));
    }
    out
}
