// C14 — resource limits are hard bounds and hitting one is recoverable.
use crate::common::*;
use crate::ext;
use crate::xs::{self, Kind};
use crate::PropDef;
use xeh::prelude::*;

pub const DEF: PropDef = PropDef {
    id: "C14",
    rule: "programs = control-flow backbone + snippets (builders, foreach, let, locals, late words, cursor reads, recursion, meta blocks) + stack flooders (unbox, loops pushing, recursion, nested builders), heap growers (var, let, API defvar) and non-terminating loops, on an interpreter that already holds a prelude. \
An unlimited twin is compiled and single-stepped, recording for every step the highest data-stack length it reached (hook verif_take_stack_peak), the heap length and the instruction meter; this gives, independently of the limit checks, the exact need of the program. Reverse recording is on in 1 case of 3. A limit (N, S or H) is then drawn around that need (in 1 case of 3 one of the other limits is re-set to a value far above any need between two steps of the stepped run - that must not refill or change anything) (need, need+-1, 0, 1, far above) and the program is driven by eval, compile+run and compile+step. \
Oracle: hard bound after every step (stack <= S, heap <= H, successful steps since the limit was set <= N); exact boundary - the limited run succeeds with the twin's final state iff the limit covers the need, otherwise it fails with the matching limit error, in the stepped run exactly at the step the twin predicts and with the machine state the twin had before that step; \
while an instruction limit is exhausted and not raised, further submissions and resume calls execute nothing; recoverable - after an instruction stop, raising the limit and run() finishes with exactly the twin's final state; after a stack/heap stop, raising the limit and evaluating fresh probes (definition, variable, builder, meta block, arithmetic) gives their normal results. Limits are also changed between evaluations on one interpreter. \
Non-trivial = the limit lies within +-1 of the need, or is hit inside a call / loop / builder / meta block; distinct = hash of program, limit kind and value",
    assumptions: &[
        "a late word's first execution is metered twice (resolve + re-dispatch); the prediction uses the twin's own meter, so only 'at most N' is claimed for the number of executed steps",
        "programs with meta blocks do part of their work during compile where no stepping is possible: for those only the hard bound, success-iff-covered and recoverability are checked",
    ],
    max_len: 600,
    quick_cases: 60_000,
    thorough_cases: 1_000_000,
    case,
    systematic: None,
    both_profiles_quick: false,
    max_shrink_iters: 6000,
    exhaustive_note: None,
};

const CAP: usize = 4000;

const FLOODERS: [&str; 11] = [
    "[ 1 2 3 4 5 6 7 ] unbox drop drop drop drop drop drop drop",
    "6 0 do I loop 6 collect drop",
    ": fl dup 0 > if dup 1 - fl then ; 5 fl drop drop drop drop drop drop",
    "[ [ 1 2 [ 3 4 [ 5 ] ] ] 6 ] drop",
    "{ 1 \"a\" 2 \"b\" 3 \"c\" } foreach I drop drop loop",
    "1 2 3 4 5 6 7 8 + + + + + + + drop",
    "[ 3 0 do I I I loop ] length drop",
    "3 0 do 3 0 do I J loop loop 18 collect drop",
    "1 2 over over over over over over drop drop drop drop drop drop drop drop",
    "7 dup dup dup dup dup drop drop drop drop drop drop",
    "1 2 3 rot over swap over drop drop drop drop drop",
];

const HEAP: [&str; 5] = ["1 var hv_a", "1 var hv_a 2 var hv_b 3 var hv_c", "[ 1 2 3 ] let [ la lb lc ]", "{ 5 \"k\" } let { \"k\" lk }", "1 var hv_a hv_a 1 + ! hv_a"];

/// meta blocks whose peak stack use is observed by the spy word `vprobe` (a native word the harness registers)
const METAPROBE: [&str; 4] = ["#( 10 20 30 vprobe + + #) drop", "#( [ 1 2 3 4 ] unbox vprobe + + + #) drop", ": mp #( 1 2 3 4 5 vprobe + + + + #) ; mp drop", "[ #( 7 8 vprobe #) ] drop"];

thread_local! {
    /// (largest data-stack length seen by vprobe, first bound violation seen by vprobe)
    static SPY: std::cell::RefCell<(usize, Option<String>)> = std::cell::RefCell::new((0, None));
}

fn vprobe(xs: &mut Xstate) -> Xresult {
    let (s, h, _) = xs.verif_counts();
    let (_, sl, hl) = xs.verif_limits();
    SPY.with(|p| {
        let mut p = p.borrow_mut();
        p.0 = p.0.max(s);
        if let Some(l) = sl {
            if s > l && p.1.is_none() {
                p.1 = Some(format!("data stack holds {} items with limit {} (seen from inside the program)", s, l));
            }
        }
        if let Some(l) = hl {
            if h > l && p.1.is_none() {
                p.1 = Some(format!("heap holds {} cells with limit {} (seen from inside the program)", h, l));
            }
        }
    });
    OK
}

fn spy_reset() {
    SPY.with(|p| *p.borrow_mut() = (0, None));
}

const NONTERM: [&str; 3] = ["begin 1 drop false until", "begin 1 false until", "0 begin 1 + repeat"];

const PROBES: [(&str, &str); 7] = [
    (": pr_w 1 2 + ; pr_w", "3"),
    ("5 var pr_v pr_v", "5"),
    ("[ 1 2 ] length", "2"),
    ("#( 1 2 + #)", "3"),
    ("7 3 -", "4"),
    ("2 0 do I loop +", "1"),
    ("\"ab\" length", "2"),
];

fn sections(xs: &Xstate) -> Vec<(&'static str, String)> {
    xs.verif_sections().into_iter().filter(|(k, _)| ["ip", "data_stack", "return_stack", "loops", "special", "heap"].contains(k)).collect()
}

struct Twin {
    /// counters: index 0 = before compile, 1 = after compile, k+1 = after step k
    counts: Vec<(usize, usize, usize)>,
    finished: bool,
    final_sections: Vec<(&'static str, String)>,
    final_stdout: String,
    final_vars: Vec<(String, String)>,
}

fn run_twin(base: &Xstate, src: &str) -> Result<Option<Twin>, String> {
    let mut xs = base.clone();
    xs.set_insn_limit(None).unwrap();
    xs.set_stack_limit(None).unwrap();
    xs.set_heap_limit(None).unwrap();
    let before = xs.verif_counts();
    let _ = xs.verif_take_stack_peak();
    let r = guard(|| xs.compile(src))?;
    if r.is_err() {
        return Ok(None);
    }
    // (the stack entry is the highest length reached during the step - a native word may push an intermediate
    // value before it pops its operands - not just the length the step leaves)
    let peaked = |xs: &mut Xstate| {
        let (_, h, m) = xs.verif_counts();
        (xs.verif_take_stack_peak(), h, m)
    };
    let mut counts = vec![before, peaked(&mut xs)];
    let mut finished = true;
    while xs.is_running() {
        if counts.len() > CAP + 1 {
            finished = false;
            break;
        }
        let r = guard(|| xs.next())?;
        if r.is_err() {
            return Ok(None); // only programs that run cleanly without limits
        }
        counts.push(peaked(&mut xs));
    }
    Ok(Some(Twin { counts, finished, final_sections: sections(&xs), final_stdout: xs::take_stdout(&mut xs), final_vars: xs::vars(&xs) }))
}

#[derive(Clone, Copy, PartialEq, Debug)]
enum Lim {
    Insn,
    Stack,
    Heap,
}

fn set_lim(xs: &mut Xstate, which: Lim, v: Option<usize>) {
    match which {
        Lim::Insn => xs.set_insn_limit(v).unwrap(),
        Lim::Stack => xs.set_stack_limit(v).unwrap(),
        Lim::Heap => xs.set_heap_limit(v).unwrap(),
    }
}

fn limit_kind(which: Lim) -> Kind {
    match which {
        Lim::Insn => Kind::InsnLimit,
        Lim::Stack => Kind::StackLimit,
        Lim::Heap => Kind::HeapLimit,
    }
}

fn probes_ok(xs: &mut Xstate, ch: &mut Choices) -> Option<String> {
    // the interpreter must work normally again: fresh programs give their normal results
    for _ in 0..3 {
        let (src, want) = PROBES[ch.below(PROBES.len())];
        let d0 = xs.data_depth();
        match guard(|| xs.eval(src)) {
            Ok(Ok(())) => {
                let top = xs.get_data(0).map(xs::render).unwrap_or_default();
                if xs.data_depth() != d0 + 1 || top != want {
                    return Some(format!("probe `{}` left [{}] (depth {} -> {}), expected {} on top", src, xs::render_stack(xs), d0, xs.data_depth(), want));
                }
                let _ = xs.pop_data();
            }
            Ok(Err(e)) => return Some(format!("probe `{}` failed: {}", src, xs::render_err(&e))),
            Err(pm) => return Some(format!("probe `{}` panicked: {}", src, pm)),
        }
    }
    None
}

pub fn case(ch: &mut Choices, ctx: &CaseCtx) -> CaseOut {
    let mut out = CaseOut::default();
    let big = ctx.tier_thorough;
    // ---- program ---------------------------------------------------------------------
    let with_meta = ch.chance(1, 4);
    let p = if ch.chance(1, 6) { ext::dictionary(ch, if big { 8 } else { 4 }) } else { ext::generate(ch, &ext::ExtOpts { meta: with_meta, failing: false, max_items: if big { 6 } else { 3 }, backbone_nodes: if big { 30 } else { 12 } }) };
    let mut items: Vec<String> = vec![p.source.clone()];
    let mut feats: Vec<&'static str> = p.features.clone();
    let which = [Lim::Insn, Lim::Stack, Lim::Heap][ch.weighted(&[4, 4, 3])];
    let nonterm = which != Lim::Heap && ch.chance(1, 6);
    for _ in 0..ch.below(3) {
        items.push(FLOODERS[ch.below(FLOODERS.len())].to_string());
        feats.push("stack-flooder");
    }
    for _ in 0..ch.below(if which == Lim::Heap { 3 } else { 2 }) {
        items.push(HEAP[ch.below(HEAP.len())].to_string());
        feats.push("heap-grower");
    }
    let mut probed_meta = false;
    if which == Lim::Stack && ch.chance(1, 3) {
        items.push(METAPROBE[ch.below(METAPROBE.len())].to_string());
        feats.push("meta-block");
        probed_meta = true;
    }
    if nonterm {
        items.push(NONTERM[ch.below(NONTERM.len())].to_string());
        feats.push("non-terminating");
    }
    let src = items.join("\n");
    let has_meta = p.has_meta || probed_meta;
    let unprobed_meta = p.has_meta;
    // ---- base interpreter (prelude + limits left over from an earlier evaluation) -------
    let mut base = xs::fresh();
    base.intercept_output(true).unwrap();
    base.defword("vprobe", vprobe).unwrap();
    // configuration: reverse recording on (the limits must hold whatever the primitives log)
    let recording = ch.chance(1, 3);
    base.set_recording_enabled(recording);
    if recording {
        feats.push("recording-on");
    }
    if ch.chance(1, 2) {
        let pre = ["1 2 3", ": pre_w 4 ; 9 var pre_v", "[ 1 2 ] 5"][ch.below(3)];
        // an earlier evaluation under other limits: limits are changed between evaluations
        base.set_insn_limit(Some(500)).unwrap();
        base.set_stack_limit(Some(50)).unwrap();
        base.set_heap_limit(Some(500)).unwrap();
        if !matches!(guard(|| base.eval(pre)), Ok(Ok(()))) {
            out.fail("prelude failed under generous limits", pre);
            return out;
        }
        feats.push("limits-changed-between-evaluations");
    }
    let _ = base.read_stdout();
    let render = format!("limit kind: {:?}\nprogram: {}", which, src.replace('\n', "\u{23ce}"));
    spy_reset();
    let twin = match run_twin(&base, &src) {
        Ok(Some(t)) => t,
        Ok(None) => {
            out.discarded = true;
            return out;
        }
        Err(pm) => {
            out.fail(format!("panic: {}", pm), render);
            return out;
        }
    };
    if !twin.finished && which == Lim::Heap {
        out.discarded = true;
        return out;
    }
    let (s0, h0, m0) = twin.counts[0];
    let steps = twin.counts.len() - 2;
    // needs
    let spy_peak = SPY.with(|p| p.borrow().0);
    let need_stack = twin.counts.iter().map(|c| c.0).max().unwrap().max(spy_peak);
    let need_heap = twin.counts.iter().map(|c| c.1).max().unwrap();
    // the meter after compile (meta blocks run during compile) plus one per step (late words count twice)
    let need_insn = twin.counts.last().unwrap().2;
    let need = match which {
        Lim::Insn => need_insn,
        Lim::Stack => need_stack,
        Lim::Heap => need_heap,
    };
    let limit: usize = if !twin.finished {
        // non-terminating: any finite limit is hit (stack flooding loops: any stack limit)
        match which {
            Lim::Insn => [0, 1, 7, 100, 999][ch.below(5)],
            _ => s0 + ch.below(40),
        }
    } else {
        // a stack / heap limit below what is already held is a configuration the statement does not cover:
        // the lowest limits drawn are "exactly what is held now" (no growth allowed at all)
        let floor = match which {
            Lim::Insn => 0,
            Lim::Stack => s0,
            Lim::Heap => h0,
        };
        match ch.weighted(&[4, 3, 3, 1, 1, 2]) {
            0 => need,
            1 => need.saturating_sub(1).max(floor),
            2 => need + 1,
            3 => floor,
            4 => floor + 1,
            _ => need + 1000,
        }
    };
    let near = limit + 1 >= need && limit <= need + 1;
    let render = format!("{}\nlimit: {} (need {}; twin: {} steps, finished {})", render, limit, need, steps, twin.finished);
    // does the twin ever exceed the limit, and at which step first?
    let exceed_step: Option<usize> = match which {
        Lim::Insn => twin.counts.iter().position(|c| c.2 > limit),
        Lim::Stack => twin.counts.iter().position(|c| c.0 > limit).or(if spy_peak > limit { Some(1) } else { None }),
        Lim::Heap => twin.counts.iter().position(|c| c.1 > limit),
    };
    // a non-terminating stack flooder that never exceeds the stack limit within the cap is inconclusive
    if !twin.finished && exceed_step.is_none() {
        out.discarded = true;
        return out;
    }
    // position 0 = already exceeded by what compile did (meta blocks, var allocation) or by the prelude
    let fail = |out: &mut CaseOut, drive: &str, what: &str, detail: String| {
        out.fail(format!("{:?}/{}: {}", which, drive, what), format!("{}\n{}", detail, render));
    };
    let bound_ok = |xs: &Xstate, stepped_ok: usize| -> Option<String> {
        let (s, h, _m) = xs.verif_counts();
        match which {
            Lim::Stack if s > limit => Some(format!("data stack holds {} items with limit {}", s, limit)),
            Lim::Heap if h > limit && h > h0 => Some(format!("heap holds {} cells with limit {} (was {} before)", h, limit, h0)),
            Lim::Insn if stepped_ok > limit => Some(format!("{} steps executed with limit {}", stepped_ok, limit)),
            _ => None,
        }
    };
    let _ = m0;
    // limits changed while the program is stopped between two steps: re-setting one of the *other* limits (to a value
    // far above any need) must not touch the budget of the limit under test
    let poke: Option<usize> = if ch.chance(1, 3) { Some(ch.below(steps + 1)) } else { None };
    let poke_first = ch.bool();
    for drive in 0..3 {
        if out.fail.is_some() {
            break;
        }
        let dname = ["eval", "compile+run", "compile+step"][drive];
        let mut xs = base.clone();
        xs.set_insn_limit(Some(300_000)).unwrap();
        xs.set_stack_limit(None).unwrap();
        xs.set_heap_limit(None).unwrap();
        set_lim(&mut xs, which, Some(limit));
        spy_reset();
        let mut executed = 0usize;
        let mut poked = false;
        let _ = &poked;
        let mut fail_state: Option<Vec<(&'static str, String)>> = None;
        let res: Xresult = match drive {
            0 => match guard(|| xs.eval(&src)) {
                Ok(r) => r,
                Err(pm) => {
                    fail(&mut out, dname, &format!("panic: {}", pm), String::new());
                    break;
                }
            },
            1 => match guard(|| xs.compile(&src).and_then(|_| xs.run())) {
                Ok(r) => r,
                Err(pm) => {
                    fail(&mut out, dname, &format!("panic: {}", pm), String::new());
                    break;
                }
            },
            _ => {
                let c = match guard(|| xs.compile(&src)) {
                    Ok(r) => r,
                    Err(pm) => {
                        fail(&mut out, dname, &format!("panic: {}", pm), String::new());
                        break;
                    }
                };
                let mut r = c;
                if r.is_ok() {
                    while xs.is_running() && executed <= CAP + 10 {
                        if poke == Some(executed) {
                            poked = true;
                            out.class("another-limit-re-set-between-two-steps");
                            let others: Vec<Lim> = [Lim::Stack, Lim::Heap, Lim::Insn].iter().copied().filter(|l| *l != which && *l != Lim::Insn).collect();
                            let l = others[if poke_first { 0 } else { others.len() - 1 }];
                            set_lim(&mut xs, l, Some(1_000_000));
                        }
                        let before = if which == Lim::Insn || recording { Some(sections(&xs)) } else { None };
                        match guard(|| xs.next()) {
                            Ok(Ok(())) => {
                                executed += 1;
                                if let Some(d) = bound_ok(&xs, executed) {
                                    fail(&mut out, dname, "limit exceeded", format!("after step {}: {}", executed, d));
                                    break;
                                }
                            }
                            Ok(Err(e)) => {
                                fail_state = before;
                                r = Err(e);
                                break;
                            }
                            Err(pm) => {
                                fail(&mut out, dname, &format!("panic: {}", pm), String::new());
                                break;
                            }
                        }
                    }
                }
                r
            }
        };
        if out.fail.is_some() {
            break;
        }
        if let Some(d) = bound_ok(&xs, 0) {
            fail(&mut out, dname, "limit exceeded", format!("at the end: {}", d));
            break;
        }
        if let Some(d) = SPY.with(|p| p.borrow().1.clone()) {
            fail(&mut out, dname, "limit exceeded", d);
            break;
        }
        let kind = xs::kind_res(&res);
        match exceed_step {
            None if unprobed_meta && which == Lim::Stack && kind == Kind::StackLimit => {
                // a meta block's own stack use during compile is not visible in the per-step record
            }
            None => {
                // the limit covers the need: must succeed with the twin's final state
                if kind != Kind::Ok {
                    fail(&mut out, dname, "failed although the limit covers the program's need", xs::render_res(&res));
                    break;
                }
                let fs = sections(&xs);
                if fs != twin.final_sections || xs::vars(&xs) != twin.final_vars || xs::take_stdout(&mut xs) != twin.final_stdout {
                    let d = fs.iter().zip(twin.final_sections.iter()).find(|(a, b)| a != b).map(|(a, b)| format!("{}: {} vs twin {}", a.0, a.1, b.1)).unwrap_or_default();
                    fail(&mut out, dname, "final state differs from the unlimited run", d);
                    break;
                }
            }
            Some(k) => {
                if kind == Kind::Ok {
                    fail(&mut out, dname, "succeeded although the program needs more than the limit", format!("twin exceeds the limit at step {}", k));
                    break;
                }
                if kind != limit_kind(which) {
                    fail(&mut out, dname, "failed with another error than the limit error", xs::render_res(&res));
                    break;
                }
                if drive == 2 && !has_meta && k >= 2 {
                    // stepped: the failure happens exactly at the step the twin predicts, not earlier
                    // (index k of the twin's record = after step k-1)
                    if executed != k - 2 {
                        fail(&mut out, dname, "stopped at another step than the unlimited twin predicts", format!("stopped after {} successful steps, twin exceeds the limit during step {}", executed, k - 1));
                        break;
                    }
                }
                // ---- the limit stays hard while it is not raised -----------------------------------
                if which == Lim::Insn {
                    // on a copy (a new submission abandons the stopped program): nothing more may execute
                    let mut c = xs.clone();
                    let (s_before, _, m_before) = c.verif_counts();
                    for probe in ["1", "2 3 +", "depth"] {
                        match guard(|| c.eval(probe)) {
                            Ok(r) => {
                                let (s_now, _, m_now) = c.verif_counts();
                                if xs::kind_res(&r) != Kind::InsnLimit || s_now != s_before || m_now > limit.max(m_before) {
                                    fail(&mut out, dname, "instructions executed after the limit was reached and not raised", format!("`{}` gave {} (stack {} -> {}, meter {} -> {}, limit {})", probe, xs::render_res(&r), s_before, s_now, m_before, m_now, limit));
                                    break;
                                }
                            }
                            Err(pm) => {
                                fail(&mut out, dname, &format!("panic: {}", pm), "probe after the limit".into());
                                break;
                            }
                        }
                    }
                    if out.fail.is_some() {
                        break;
                    }
                    let mut c2 = xs.clone();
                    for _ in 0..3 {
                        let r = guard(|| if drive == 2 { c2.next() } else { c2.run() });
                        let m_now = c2.verif_counts().2;
                        let still_running = c2.is_running();
                        if let Ok(r) = &r {
                            if still_running && (xs::kind_res(r) != Kind::InsnLimit || m_now > limit) {
                                fail(&mut out, dname, "instructions executed after the limit was reached and not raised", format!("resuming without raising gave {} (meter {}, limit {})", xs::render_res(r), m_now, limit));
                                break;
                            }
                        }
                    }
                    if out.fail.is_some() {
                        break;
                    }
                    // stepping back does not refill the budget: back and forth executes nothing more
                    if recording && drive == 2 {
                        let mut c3 = xs.clone();
                        for _ in 0..3 {
                            // (a back-step that itself fails - the log reaches back into build-time code - ends the probe)
                            if !matches!(guard(|| c3.rnext()), Ok(Ok(()))) {
                                break;
                            }
                            let r = guard(|| c3.next());
                            if let Ok(r) = &r {
                                if c3.is_running() && xs::kind_res(r) != Kind::InsnLimit {
                                    fail(&mut out, dname, "instructions executed after the limit was reached and not raised", format!("rnext() then next() gave {} (limit {})", xs::render_res(r), limit));
                                    break;
                                }
                            }
                        }
                        if out.fail.is_some() {
                            break;
                        }
                    }
                    // a new program submitted after the limit is raised starts from what the stopped one left: the rest
                    // of the stopped program is abandoned, not run
                    if drive >= 1 && !has_meta {
                        let mut c4 = xs.clone();
                        let before = xs::render_stack(&c4);
                        c4.set_insn_limit(Some(100_000)).unwrap();
                        if let Ok(r) = guard(|| c4.compile("777").and_then(|_| c4.run())) {
                            let want = if before.is_empty() { "777".to_string() } else { format!("{} | 777", before) };
                            if r.is_err() || xs::render_stack(&c4) != want {
                                fail(&mut out, dname, "a program submitted after the limit was raised resumed the stopped one", format!("`777` compiled and run: {} stack [{}], expected [{}]", xs::render_res(&r), xs::render_stack(&c4), want));
                                break;
                            }
                        }
                    }
                }
                // ---- recoverability ----------------------------------------------------------
                // (a stack / heap refusal in the middle of a native word may leave that word half done; when the refused
                // step left the machine as it was - a plain push - the program is resumable just the same)
                let refused_unchanged = which != Lim::Insn && drive == 2 && fail_state.as_ref().map(|b| &sections(&xs) == b).unwrap_or(false);
                if (which == Lim::Insn || refused_unchanged) && drive >= 1 && k >= 2 && twin.finished && !has_meta {
                    // the stop happens before the instruction mutates anything: resume must complete the program
                    if let (Some(b), 2) = (&fail_state, drive) {
                        let now = sections(&xs);
                        if &now != b {
                            let d = now.iter().zip(b.iter()).find(|(a, b)| a != b).map(|(a, b)| format!("{}: {} vs before {}", a.0, a.1, b.1)).unwrap_or_default();
                            fail(&mut out, dname, "the refused instruction changed the machine state", d);
                            break;
                        }
                    }
                    if which == Lim::Insn {
                        xs.set_insn_limit(Some(need_insn + 60)).unwrap();
                    } else {
                        set_lim(&mut xs, which, None);
                    }
                    // with recording on the debugger may first step back: the refused step left nothing in the log
                    if recording && drive == 2 {
                        out.class("resumed-after-stepping-back-from-the-refusal");
                        let back = 1 + (limit + executed) % 3;
                        let mut bad = false;
                        for _ in 0..back {
                            if !matches!(guard(|| xs.rnext()), Ok(Ok(()))) {
                                bad = true;
                                break;
                            }
                        }
                        if bad {
                            fail(&mut out, dname, "after raising the limit, rnext() fails", String::new());
                            break;
                        }
                    }
                    let stepped_back = recording && drive == 2;
                    match guard(|| xs.run()) {
                        Ok(Ok(())) => {
                            let fs = sections(&xs);
                            // (printed text is not retracted by stepping back, so it is printed again)
                            if fs != twin.final_sections || xs::vars(&xs) != twin.final_vars || (!stepped_back && xs::take_stdout(&mut xs) != twin.final_stdout) {
                                let d = fs.iter().zip(twin.final_sections.iter()).find(|(a, b)| a != b).map(|(a, b)| format!("{}: {} vs twin {}", a.0, a.1, b.1)).unwrap_or_default();
                                fail(&mut out, dname, "after raising the limit, run() does not finish in the twin's final state", d);
                                break;
                            }
                        }
                        Ok(Err(e)) => {
                            fail(&mut out, dname, "after raising the limit, run() fails", xs::render_err(&e));
                            break;
                        }
                        Err(pm) => {
                            fail(&mut out, dname, &format!("panic: {}", pm), "run after raising".into());
                            break;
                        }
                    }
                } else {
                    // raise the limit and evaluate fresh probes
                    set_lim(&mut xs, which, None);
                    xs.set_insn_limit(Some(100_000)).unwrap();
                    let _ = xs.read_stdout();
                    if let Some(d) = probes_ok(&mut xs, ch) {
                        fail(&mut out, dname, "after raising the limit the interpreter does not work normally", d);
                        break;
                    }
                }
            }
        }
        // the embedding API's push obeys the stack limit too
        if which == Lim::Stack && out.fail.is_none() && drive == 0 {
            let mut xa = base.clone();
            let held = xa.verif_counts().0;
            xa.set_stack_limit(Some(held + 2)).unwrap();
            let mut pushed = 0;
            for k in 0..5 {
                if xa.push_data(Cell::Int(k)).is_ok() {
                    pushed += 1;
                }
            }
            if pushed != 2 || xa.verif_counts().0 != held + 2 {
                fail(&mut out, "api", "push_data does not stop exactly at the stack limit", format!("{} pushes succeeded with room for 2 (stack {} -> {})", pushed, held, xa.verif_counts().0));
            }
        }
        // API variable definition obeys the heap limit too
        if which == Lim::Heap && out.fail.is_none() && drive == 0 {
            let mut xa = base.clone();
            let hl = xa.verif_counts().1;
            xa.set_heap_limit(Some(hl)).unwrap();
            let r = xa.defvar(Xstr::from("api_v"), Cell::Int(1));
            if r.is_ok() || xa.verif_counts().1 > hl {
                fail(&mut out, "api", "defvar allocated beyond the heap limit", format!("heap {} limit {}", xa.verif_counts().1, hl));
            }
            xa.set_heap_limit(Some(hl + 1)).unwrap();
            if xa.defvar(Xstr::from("api_v"), Cell::Int(1)).is_err() {
                fail(&mut out, "api", "defvar refused although one cell is free", String::new());
            }
        }
    }
    let in_structure = feats.iter().any(|f| ["call", "do-loop", "vec-builder", "meta-block", "recursion", "stack-flooder", "wrapped-in-word", "wrapped-in-loop"].contains(f));
    out.nontrivial = near || (exceed_step.is_some() && in_structure);
    out.class(match which {
        Lim::Insn => "insn-limit",
        Lim::Stack => "stack-limit",
        Lim::Heap => "heap-limit",
    });
    out.class(if exceed_step.is_some() { "limit-hit" } else { "limit-covers-need" });
    if near {
        out.class("limit-within-1-of-need");
    }
    if has_meta {
        out.class("meta-block");
    }
    for f in &feats {
        if ["stack-flooder", "heap-grower", "non-terminating", "limits-changed-between-evaluations", "recording-on", "over-flood"].contains(f) {
            out.class(f);
        }
    }
    let _ = s0;
    out.hash = hash_of(&(src.clone(), format!("{:?}", which), limit));
    if ctx.want_render || out.fail.is_some() {
        out.render = Some(render);
    }
    out
}
