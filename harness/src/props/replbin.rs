// REPL sub-check shared by C03 and C10: a generated session is piped through the real `xeh` binary and the
// transcript (stdout and stderr) is compared with a model that never clones: the model keeps the list of
// submitted lines and re-creates a snapshot's state by replaying its prefix on a freshly booted interpreter.
// So the binary's /snapshot, /rollback and trial-mode bookkeeping (clones kept alive across later activity)
// is checked against deterministic re-execution, and lines after a rejected or failing line are checked
// against the library driven one line at a time.
use crate::common::*;
use std::io::Write;
use std::process::{Command, Stdio};
use xeh::prelude::*;

pub const LINES: [&str; 40] = [
    "1 2",
    "drop",
    "dup",
    "swap",
    "|a5 5a 33| var b0",
    "|0f| b0 bitstr-append ! b0",
    "b0 bitstr-not ! b0",
    "b0",
    "b0 open-bitstr 12 bits close-bitstr",
    "|f| swap bitstr-append",
    "|5| swap bitstr-append",
    "[ 1 2 ] var v0",
    "3 v0 push ! v0",
    "v0",
    "{ 1 \"a\" } var m0",
    "m0 2 \"b\" insert ! m0",
    "0 var n0",
    "n0 1 + ! n0",
    "n0",
    "n0 print",
    "\"x\" println",
    ": w1 n0 2 * ;",
    ": w1 7 ;",
    "w1",
    "[ 7 8 ] let [ la lb ] la",
    "b0 b0 equal?",
    "|01 02 03| open-bitstr u8",
    "1 0 /",
    "\"X\" print 1 0 / \"Y\" print",
    "nosuchword 5",
    "1 if 2",
    "#( foo #)",
    "7 #( 1 2 + #)",
    "then",
    "[ 1 2",
    "5 var x x",
    ": p 1 if 2 then ; p",
    "depth",
    "3 0 do I loop",
    "drop drop drop drop drop drop",
];

const CMDS: [&str; 6] = ["/snapshot", "/rollback", "/repl", "/trial", "/next", "/rnext"];

fn boot_like_binary() -> Xstate {
    let mut xs = Xstate::boot().expect("boot");
    xeh::d2_plugin::load(&mut xs).expect("d2");
    xs.intercept_stdout(true);
    xs
}

struct Model {
    xs: Xstate,
    history: Vec<String>,
    /// each snapshot = the number of history lines it contains
    snapshots: Vec<usize>,
    trial: bool,
    out: String,
    err: String,
}

impl Model {
    fn replay(prefix: &[String]) -> Xstate {
        let mut xs = boot_like_binary();
        for l in prefix {
            match l.as_str() {
                "/next" => {
                    let _ = xs.next();
                }
                "/rnext" => {
                    let _ = xs.rnext();
                }
                _ => {
                    let _ = xs.compile(l).and_then(|_| xs.run());
                }
            }
            let _ = xs.read_stdout();
        }
        xs
    }
    fn line(&mut self, line: &str) {
        let cmd = line.trim();
        let res: Xresult = match cmd {
            "/next" => {
                self.history.push(cmd.to_string());
                self.xs.next()
            }
            "/rnext" => {
                self.history.push(cmd.to_string());
                self.xs.rnext()
            }
            "/trial" => {
                if !self.trial {
                    self.out.push_str("# Trial and error mode!\n# Everyting is evaluating on-fly, hit Enter to freeze the changes.\n# Switch between modes using /repl and /trial commands.\n");
                    self.trial = true;
                    self.snapshots.push(self.history.len());
                }
                Ok(())
            }
            "/repl" => {
                if self.trial {
                    self.trial = false;
                    self.out.push_str("# Read-Eval-Print-Loop mode!\n# Switch between modes using /repl and /trial commands.\n");
                }
                Ok(())
            }
            "/snapshot" => {
                self.out.push_str("Taking snapshot...\n");
                self.snapshots.push(self.history.len());
                self.out.push_str("OK\n");
                Ok(())
            }
            "/rollback" => {
                if let Some(n) = self.snapshots.pop() {
                    // the state the snapshot held = deterministic re-execution of its lines
                    self.history.truncate(n);
                    self.xs = Model::replay(&self.history);
                    self.out.push_str("OK\n");
                }
                Ok(())
            }
            _ => {
                let res = self.xs.compile(line).and_then(|_| self.xs.run());
                self.history.push(line.to_string());
                if self.trial {
                    // trial mode freezes every entered line: the newest snapshot becomes the current state
                    self.snapshots.pop();
                    self.snapshots.push(self.history.len());
                }
                if let Some(s) = self.xs.read_stdout() {
                    self.out.push_str(&s);
                }
                let n = self.xs.data_depth();
                for i in 0..n {
                    if i > 15 {
                        self.out.push_str("...\n");
                        break;
                    }
                    let v = self.xs.get_data(i).unwrap();
                    self.out.push_str(&self.xs.format_cell(v).unwrap());
                    self.out.push('\n');
                }
                res
            }
        };
        // whatever the step printed (a /next can run a print) goes out before the next line is read
        if let Some(s) = self.xs.read_stdout() {
            self.out.push_str(&s);
        }
        if let Err(e) = &res {
            let s = self.xs.pretty_error().unwrap_or_else(|| format!("{}", e));
            self.err.push_str(&s);
            self.err.push('\n');
        }
    }
}

pub fn bin_path() -> Option<String> {
    let p = std::env::var("VERIF_XEH_BIN").ok()?;
    if std::path::Path::new(&p).exists() {
        Some(p)
    } else {
        None
    }
}

/// one REPL session; `focus` selects the flavour of lines (0 = snapshots/rollback heavy, 1 = failing lines heavy)
pub fn repl_case(ch: &mut Choices, ctx: &CaseCtx, focus: usize, sigprefix: &str) -> CaseOut {
    let mut out = CaseOut::default();
    let bin = match bin_path() {
        Some(b) => b,
        None => {
            out.discarded = true;
            return out;
        }
    };
    let n = 3 + ch.below(if ctx.tier_thorough { 30 } else { 14 });
    let mut lines: Vec<String> = Vec::new();
    let mut rollbacks = 0;
    let mut failing = 0;
    for _ in 0..n {
        let w = if focus == 0 { [10, 5] } else { [12, 2] };
        match ch.weighted(&w) {
            0 => {
                let i = if focus == 1 && ch.chance(1, 3) { 27 + ch.below(8) } else { ch.below(LINES.len()) };
                if (27..35).contains(&i) {
                    failing += 1;
                }
                lines.push(LINES[i].to_string());
            }
            _ => {
                let c = CMDS[ch.weighted(&[5, 5, 2, 1, 1, 1])];
                if c == "/rollback" {
                    rollbacks += 1;
                }
                lines.push(c.to_string());
            }
        }
    }
    // model
    let mut m = Model { xs: boot_like_binary(), history: Vec::new(), snapshots: Vec::new(), trial: false, out: String::new(), err: String::new() };
    let model_res = guard(|| {
        m.line("/trial"); // the binary starts in trial mode
        for l in &lines {
            m.line(l);
        }
        m.err.push_str("CTRL-D\n");
    });
    if let Err(pm) = model_res {
        out.fail(format!("panic: {} [repl model]", pm), lines.join("\n"));
        return out;
    }
    // the binary, in a scratch directory (it writes a history file into its cwd)
    let dir = format!("{}/.run/repl-{}", verif_root(), std::process::id());
    let _ = std::fs::create_dir_all(&dir);
    let child = Command::new(&bin).current_dir(&dir).stdin(Stdio::piped()).stdout(Stdio::piped()).stderr(Stdio::piped()).spawn();
    let mut child = match child {
        Ok(c) => c,
        Err(_) => {
            out.discarded = true;
            return out;
        }
    };
    {
        let mut stdin = child.stdin.take().unwrap();
        let mut text = lines.join("\n");
        text.push('\n');
        let _ = stdin.write_all(text.as_bytes());
    }
    let o = match child.wait_with_output() {
        Ok(o) => o,
        Err(_) => {
            out.discarded = true;
            return out;
        }
    };
    let (got_out, got_err) = (String::from_utf8_lossy(&o.stdout).to_string(), String::from_utf8_lossy(&o.stderr).to_string());
    let render = format!("REPL session:\n{}", lines.join("\n"));
    if !o.status.success() && o.status.code().is_none() {
        out.fail(format!("{}: the xeh binary was killed by a signal", sigprefix), render.clone());
    } else if got_out != m.out {
        let d = first_diff(&got_out, &m.out);
        out.fail(format!("{}: the REPL prints another stack/output than re-execution of the same lines", sigprefix), format!("stdout differs at line {}:\n binary: {:?}\n model : {:?}\n{}", d.0, d.1, d.2, render));
    } else if got_err != m.err {
        let d = first_diff(&got_err, &m.err);
        out.fail(format!("{}: the REPL reports other errors than re-execution of the same lines", sigprefix), format!("stderr differs at line {}:\n binary: {:?}\n model : {:?}\n{}", d.0, d.1, d.2, render));
    }
    out.nontrivial = rollbacks > 0 || failing > 0;
    out.class("repl-binary-session");
    if rollbacks > 0 {
        out.class("repl-rollback");
    }
    if failing > 0 {
        out.class("repl-failing-line");
    }
    out.hash = hash_of(&lines);
    if ctx.want_render || out.fail.is_some() {
        out.render = Some(render);
    }
    out
}

fn first_diff(a: &str, b: &str) -> (usize, String, String) {
    let (la, lb): (Vec<&str>, Vec<&str>) = (a.lines().collect(), b.lines().collect());
    for i in 0..la.len().max(lb.len()) {
        let (x, y) = (la.get(i).copied().unwrap_or("<end>"), lb.get(i).copied().unwrap_or("<end>"));
        if x != y {
            return (i + 1, x.to_string(), y.to_string());
        }
    }
    (0, String::new(), String::new())
}
