// C10 — a source that fails to build has no effect on anything submitted afterwards.
use crate::common::*;
use crate::xs;
use crate::PropDef;
use xeh::prelude::*;

pub const DEF: PropDef = PropDef {
    id: "C10",
    rule: "histories pre* BAD probe+ on one interpreter, in both submission styles (eval; compile then run only if compile succeeded). pre = well-formed sources (definitions, variables, values left on the stack, an open binary input). \
BAD (family 1, rejected while read/compiled) = a well-formed prefix that leaves any combination of if / else / begin / while / do / case / of / [ / { / ^{ / : (with locals) / #( / enum open, possibly after completed definitions, variables and constants, + a failing token (unknown word, bad number / string / bit-string literal, unterminated string or comment, unmatched closer, var under a structure, const outside a meta block, or a run-time error inside a meta block) + trailing text that would be visible if it ever ran (pushes, prints, definitions). \
Family 2 = a source that builds but fails at run time (inside a called word, a loop, after printing). probe = sources that observe the damage: depth, var, definitions with control structures, builders, meta blocks, calls to earlier words, the names BAD's text would have defined. \
Oracle (metamorphic): the same history without BAD runs on a clone; after every probe both must agree on the result, the whole visible stack, stdout, every variable and the word list (family 2: probes are stack-independent and the comparison is on result, stdout, stack delta and pushed values; 1 family-2 case in 4 is a run stopped by a tiny instruction limit that is raised again for the probes). Directly after BAD: the call returned an error, mode / nesting / pending structures / pending input / visible stack are what they were, nothing of the trailing text was printed. \
Non-trivial = BAD leaves >=1 structure or meta block open or has trailing text, and a probe inspects the stack or defines something; distinct = hash of the whole history",
    assumptions: &["buffer numbers in error locations are not compared (the rejected text legitimately occupies a source slot)", "heap and code lengths are not compared (a rejected `var` may leave an unreachable cell); behaviour through the dictionary, variables, stack and output is"],
    max_len: 300,
    quick_cases: 40_000,
    thorough_cases: 500_000,
    case,
    systematic: None,
    both_profiles_quick: false,
    max_shrink_iters: 6000,
    exhaustive_note: None,
};

const PRE: [&str; 8] = [": pw 7 ;", "3 var pv", "10 20", ": pw2 dup 0 > if 1 - then ;", "[ 1 2 ] var pvec", "|a5 5a| open-bitstr 4 bits drop", "#( 5 const PC #)", "\"s\""];

const OPENERS: [&str; 22] = [
    "1 if", "1 if 2 else", "begin", "begin 1 while", "3 0 do", "2 case 1 of", "2 case", "[ 1", "{ 1", "5 ^{", ": bw", ": bw local x x", "#(", "#( 1", "#( : mw 1 ;", "#( [ 1", "enum E1 :A", "[ #( 2", ": bw2 #( 3", "[ 1 2 ] foreach", "1 if begin", ": bw3 1 if",
];

const COMPLETED: [&str; 7] = [": bd 99 ;", "9 var bv", "#( 5 const BC #)", "77", "late blate", "[ 7 8 ] let [ bla blb ]", ": pw 1000 ;"];

const FAILING: [&str; 27] = [
    "#( \"2 nosuchinjected\" ~)", "#( \"1 if\" \"then then\" ~)", "#( \"[ 1\" ~) 5 ] ]",
    "nosuchword", "2d", "0x", "\"unterminated", "|zz|", "\\( unterminated comment", "then", "]", "}", ";", "loop", "#)", "endcase", "until", "repeat", "endof", "^}", "else", "5 const KOUT", "#( 1 0 / #)", "#( nosuchinmeta #)", "#( 1 drop drop #)", "! nosuchvar", "endenum",
];

const TRAILING: [&str; 6] = ["", "2 3", "\"leak\" print", ": g 99 ;", "9 var leak", "31 32 \"leak2\" print : g2 1 ;"];

const RUNTIME_FAIL: [&str; 8] = [
    "1 0 /",
    "\"X\" print 1 0 / \"Y\" print",
    ": rf 1 nil + ; \"X\" print rf",
    "3 0 do I 1 == if \"X\" print \"s\" 1 - then loop",
    "drop drop drop drop drop drop drop drop drop drop drop",
    "false assert 5",
    "[ 1 2 ] foreach I 0 / loop",
    "9 var rv \"X\" print rv error",
];

/// stack-independent probes (family 2 and general): (source, pushes)
const PROBES: [&str; 16] = [
    "depth",
    "5 var x x",
    ": p 1 if 2 then ; p",
    "[ 1 2 ] length",
    "#( 1 2 + #)",
    "pw",
    "pv",
    "g",
    "leak",
    "bd",
    "bv BC",
    "3 0 do I loop",
    ": q begin 1 true until ; q",
    "{ 1 \"a\" } \"a\" get",
    "\"probe\" print",
    "bw",
];

/// the same submission through the file API (eval_file / compile_file + run)
fn submit_file(xs: &mut Xstate, src: &str, compile_style: bool, path: &str) -> Result<Xresult, String> {
    let _ = std::fs::write(path, src);
    xs.set_insn_limit(Some(50_000)).unwrap();
    guard(|| {
        if compile_style {
            match xs.compile_file(Xstr::from(path)) {
                Ok(()) => xs.run(),
                Err(e) => Err(e),
            }
        } else {
            xs.eval_file(Xstr::from(path))
        }
    })
}

fn submit(xs: &mut Xstate, src: &str, compile_style: bool) -> Result<Xresult, String> {
    // a fresh instruction budget per submission (an exhausted budget is C14's subject, not an after-effect)
    xs.set_insn_limit(Some(50_000)).unwrap();
    guard(|| {
        if compile_style {
            match xs.compile(src) {
                Ok(()) => xs.run(),
                Err(e) => Err(e),
            }
        } else {
            xs.eval(src)
        }
    })
}

fn words(xs: &Xstate) -> Vec<String> {
    let mut w: Vec<String> = xs.word_list().iter().map(|x| x.to_string()).collect();
    w.sort();
    w
}

pub fn case(ch: &mut Choices, ctx: &CaseCtx) -> CaseOut {
    // 1 case in 25: lines typed into the real REPL binary (rejected and failing lines among them)
    if ch.chance(1, 25) && crate::props::replbin::bin_path().is_some() {
        return crate::props::replbin::repl_case(ch, ctx, 1, "repl");
    }
    let mut out = CaseOut::default();
    let compile_style = ch.bool();
    let family2 = ch.chance(1, 4);
    // 1 case in 6 works with a real file pulled in by require / include (needs the real words, not the stubs)
    let with_file = ch.chance(1, 5);
    let mut a = if with_file {
        let mut x = Xstate::boot().expect("boot");
        x.intercept_stdout(true);
        x
    } else {
        xs::fresh()
    };
    a.set_insn_limit(Some(50_000)).unwrap();
    let file_path = format!("{}/.run/c10-{}/lib.xeh", verif_root(), std::process::id());
    if with_file {
        let _ = std::fs::create_dir_all(format!("{}/.run/c10-{}", verif_root(), std::process::id()));
        let _ = std::fs::write(&file_path, ": fromfile 41 ;\n7 var filevar\n");
        let _ = std::fs::write(file_path.replace("lib.xeh", "bad.xeh"), "1 nosuchinfile 2\n: fromfile 666 ;\n");
    }
    let mut log: Vec<String> = vec![format!("style: {}", if compile_style { "compile+run" } else { "eval" })];
    // ---- pre ------------------------------------------------------------------------------
    for _ in 0..ch.below(4) {
        let s = PRE[ch.below(PRE.len())];
        log.push(format!("pre: {}", s));
        if !matches!(submit(&mut a, s, compile_style), Ok(Ok(()))) {
            out.fail("a well-formed pre source failed", log.join("\n"));
            return out;
        }
    }
    let _ = a.read_stdout();
    // compile style: sometimes a source is compiled but not yet run when BAD arrives (its code is still pending)
    if compile_style && !family2 && ch.chance(1, 4) {
        let s = ["100 200", ": pend 5 ; pend", "\"pending\" print 300"][ch.below(3)];
        log.push(format!("compiled, not yet run: {}", s));
        if !matches!(guard(|| a.compile(s)), Ok(Ok(()))) {
            out.fail("a well-formed pre source failed", log.join("\n"));
            return out;
        }
    }
    let mut b = a.clone(); // the twin: same history without BAD
    // ---- BAD ------------------------------------------------------------------------------
    let mut open_structs = 0usize;
    let mut has_trailing = false;
    let mut trailing_at = usize::MAX;
    // (family 2, 1 in 4: the run is stopped by the instruction limit instead of an error; the limit is raised again
    // for the later sources, which must not run what was left of the stopped program)
    let limit_stop = family2 && ch.chance(1, 4);
    let bad: String = if limit_stop {
        "1 2 3 drop drop drop \"leak\" print 4 5 drop drop \"leak\" print".to_string()
    } else if family2 {
        RUNTIME_FAIL[ch.below(RUNTIME_FAIL.len())].to_string()
    } else {
        let mut parts: Vec<String> = Vec::new();
        for _ in 0..ch.below(3) {
            if ch.chance(1, 3) {
                parts.push(COMPLETED[ch.below(COMPLETED.len())].to_string());
            }
        }
        if with_file {
            parts.push(format!("{} {}", ["require", "include"][ch.below(2)], xs::str_lit(&file_path)));
        }
        let nopen = ch.weighted(&[3, 5, 3, 1]);
        for _ in 0..nopen {
            parts.push(OPENERS[ch.below(OPENERS.len())].to_string());
            open_structs += 1;
            if ch.chance(1, 3) {
                parts.push(["1 2 +", "7", "\"t\""][ch.below(3)].to_string());
            }
        }
        if with_file && ch.chance(1, 3) {
            // the failing token lies inside a file the source pulls in; the source's own text continues after it
            parts.push(format!("include {}", xs::str_lit(&file_path.replace("lib.xeh", "bad.xeh"))));
        } else {
            parts.push(FAILING[ch.below(FAILING.len())].to_string());
        }
        let t = TRAILING[ch.below(TRAILING.len())];
        let sep = [" ", "\n", "  "][ch.below(3)];
        let mut text = parts.join(sep);
        if !t.is_empty() {
            has_trailing = true;
            text.push_str(sep);
            trailing_at = text.len();
            text.push_str(t);
        }
        text
    };
    // classify on a scratch clone: family 1 must be rejected by compile, family 2 must build and fail in run
    if !limit_stop {
        let mut s = a.clone();
        let c = guard(|| s.compile(&bad));
        match (family2, c) {
            (false, Ok(Err(_))) => {}
            (true, Ok(Ok(()))) => match guard(|| s.run()) {
                Ok(Err(_)) => {}
                Ok(Ok(())) => {
                    out.discarded = true;
                    return out;
                }
                Err(pm) => {
                    out.fail(format!("panic: {}", pm), format!("run of {}", bad));
                    return out;
                }
            },
            (_, Err(pm)) => {
                out.fail(format!("panic: {}", pm), format!("compile of {:?}\n{}", bad, log.join("\n")));
                return out;
            }
            _ => {
                // the generated text happened to be well-formed (e.g. the closer matched): not a case of this property
                out.discarded = true;
                return out;
            }
        }
    }
    log.push(format!("{}: {:?}", if family2 { "FAILS-AT-RUN-TIME" } else { "BAD" }, bad));
    let before = (xs::section(&a, "mode"), xs::section(&a, "nested_len"), xs::section(&a, "flow_len"), xs::section(&a, "input_len"), xs::render_stack(&a), xs::vars(&a), words(&a));
    let submitted = if limit_stop {
        a.set_insn_limit(Some(3 + ch.below(4))).unwrap();
        guard(|| if compile_style { a.compile(&bad).and_then(|_| a.run()) } else { a.eval(&bad) })
    } else {
        submit(&mut a, &bad, compile_style)
    };
    let r = match submitted {
        Ok(r) => r,
        Err(pm) => {
            out.fail(format!("panic: {}", pm), log.join("\n"));
            return out;
        }
    };
    let sigbase = if family2 { "after a run-time failure".to_string() } else { format!("after a rejected source ({})", if open_structs > 0 { "structures open" } else { "nothing open" }) };
    let fail = |out: &mut CaseOut, what: &str, detail: String, log: &[String]| {
        out.fail(format!("{}: {}", sigbase, what), format!("{}\n{}", detail, log.join("\n")));
    };
    if r.is_ok() {
        fail(&mut out, "the failing source was accepted", String::new(), &log);
        return out;
    }
    let printed = xs::take_stdout(&mut a);
    if !family2 {
        let after = (xs::section(&a, "mode"), xs::section(&a, "nested_len"), xs::section(&a, "flow_len"), xs::section(&a, "input_len"), xs::render_stack(&a), xs::vars(&a), words(&a));
        if after.0 != before.0 || after.1 != before.1 {
            fail(&mut out, "evaluation mode / nesting not restored", format!("mode {} -> {}, nesting {} -> {}", before.0, after.0, before.1, after.1), &log);
        } else if after.2 != before.2 {
            fail(&mut out, "pending control structures left behind", format!("{} -> {}", before.2, after.2), &log);
        } else if after.3 != before.3 {
            fail(&mut out, "unread text left pending", format!("{} -> {}", before.3, after.3), &log);
        } else if after.4 != before.4 {
            fail(&mut out, "visible stack changed", format!("[{}] -> [{}]", before.4, after.4), &log);
        } else if after.5 != before.5 {
            fail(&mut out, "variables changed", format!("{:?} -> {:?}", before.5, after.5), &log);
        } else if after.6 != before.6 {
            let extra: Vec<&String> = after.6.iter().filter(|w| !before.6.contains(w)).collect();
            fail(&mut out, "definitions left behind", format!("{:?}", extra), &log);
        } else if printed.contains("leak") && a.last_err_location().map(|l| l.token.parent().as_str() == bad.as_str() && l.token.range().start < trailing_at).unwrap_or(false) {
            // (when the error is only detected after the trailing text - e.g. an unclosed meta block at the end of the
            //  input - that text was legitimately read, and inside a meta block also executed, before the failure)
            fail(&mut out, "trailing text was executed", format!("printed {:?}", printed), &log);
        }
        if out.fail.is_some() {
            return out;
        }
    } else {
        // family 2: clear what the failing line legitimately left on the stack, on both sides the probes are stack-independent
        while a.data_depth() > 0 {
            let _ = a.pop_data();
        }
        while b.data_depth() > 0 {
            let _ = b.pop_data();
        }
    }
    // ---- probes -----------------------------------------------------------------------------
    let nprobes = 1 + ch.below(4);
    let mut probe_defines_or_inspects = false;
    for _ in 0..nprobes {
        let file_probe = format!("require {} fromfile filevar", xs::str_lit(&file_path));
        let p: &str = if with_file && ch.chance(1, 2) { &file_probe } else { PROBES[ch.below(PROBES.len())] };
        log.push(format!("probe: {}", p));
        if p.contains("var") || p.contains(": ") || p.contains("depth") {
            probe_defines_or_inspects = true;
        }
        let (da, db) = (a.data_depth(), b.data_depth());
        let via_file = with_file && !p.contains("require") && ch.chance(1, 2);
        if via_file {
            log.push("  (submitted through a file)".to_string());
        }
        let probe_path = file_path.replace("lib.xeh", "probe.xeh");
        let results = if via_file {
            (submit_file(&mut a, p, compile_style, &probe_path), submit_file(&mut b, p, compile_style, &probe_path))
        } else {
            (submit(&mut a, p, compile_style), submit(&mut b, p, compile_style))
        };
        let (ra, rb) = match results {
            (Ok(x), Ok(y)) => (x, y),
            (Err(pm), _) | (_, Err(pm)) => {
                out.fail(format!("panic: {}", pm), log.join("\n"));
                return out;
            }
        };
        let (oa, ob) = (xs::take_stdout(&mut a), xs::take_stdout(&mut b));
        if xs::render_res(&ra) != xs::render_res(&rb) {
            fail(&mut out, "a later source gives another result", format!("probe `{}`: {} but without the failing source {}", p, xs::render_res(&ra), xs::render_res(&rb)), &log);
            break;
        }
        if oa != ob {
            fail(&mut out, "a later source prints something else", format!("probe `{}`: {:?} but without the failing source {:?}", p, oa, ob), &log);
            break;
        }
        let (sa, sb) = (xs::render_stack(&a), xs::render_stack(&b));
        if sa != sb {
            fail(&mut out, "a later source leaves another stack", format!("probe `{}`: [{}] but without the failing source [{}]", p, sa, sb), &log);
            break;
        }
        if a.data_depth() as isize - da as isize != b.data_depth() as isize - db as isize {
            fail(&mut out, "a later source has another stack effect", format!("probe `{}`", p), &log);
            break;
        }
        if !family2 {
            if xs::vars(&a) != xs::vars(&b) {
                fail(&mut out, "variables differ after a later source", format!("probe `{}`: {:?} vs {:?}", p, xs::vars(&a), xs::vars(&b)), &log);
                break;
            }
            if words(&a) != words(&b) {
                fail(&mut out, "word list differs after a later source", format!("probe `{}`", p), &log);
                break;
            }
        }
        if ra.is_err() {
            // a failing probe may leave operands behind: keep both sides aligned
            while a.data_depth() > 0 {
                let _ = a.pop_data();
            }
            while b.data_depth() > 0 {
                let _ = b.pop_data();
            }
        }
    }
    out.nontrivial = (open_structs > 0 || has_trailing || family2) && probe_defines_or_inspects;
    out.class(if family2 { "fails-at-run-time" } else { "rejected-at-build" });
    if limit_stop {
        out.class("stopped-by-the-instruction-limit");
    }
    if open_structs > 0 {
        out.class("structures-open");
    }
    if bad.contains("#(") {
        out.class("meta-block-involved");
    }
    if has_trailing {
        out.class("trailing-text");
    }
    out.class(if compile_style { "compile+run" } else { "eval" });
    out.hash = hash_of(&log);
    if ctx.want_render || out.fail.is_some() {
        out.render = Some(log.join("\n"));
    }
    out
}
