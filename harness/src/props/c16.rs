// C16 — the lexer is total, loses no text, and reads literals as written.
use crate::common::*;
use crate::xs;
use crate::PropDef;
use xeh::lex::{Lex, Tok};
use xeh::prelude::*;

pub const DEF: PropDef = PropDef {
    id: "C16",
    rule: "five generated families: (1) texts of 0..40 fragments (all ASCII whitespace, Unicode spaces, comment markers, quotes, digits, prefixes, escapes, multi-byte letters, control chars): \
Lex::next must terminate within len+2 calls, every token consumes >=1 byte, concatenated last_substr() equals the input (a prefix of it when an error is returned), Word/Whitespace/Comment payloads equal their text; \
(2) integer spellings [+-]?(0x H+|0b B+|0 H*|D+) with `_` after digits, magnitudes up to 2^130: value accumulated digit by digit, in range => Int(v), out of range => error; \
(3) real spellings [+-]?D+.D*([eE][+-]?D+)? with `_`: exact mantissa*10^k for <=15 digits and |k|<=22, otherwise correctly rounded std parse of the cleaned text; \
(4) strings escaped as documented decode to the original, unknown escapes / unterminated literals are errors, bit-string literals denote 4 bits per hex digit and 1 per x/.; \
(5) print/read: Int / Bitstr (all lengths 0..70 and 1 in 6 of 200..500 bits, all alignments) / nested vectors and int-keyed maps of those (1 in 6 with 10..25 entries) printed by format_cell, by the `print` word or by the plain Debug rendering, evaluated as source, leaves one equal? value. \
Non-trivial = (1) >=3 tokens incl. a literal or comment opener, (2-3) spelling with `_`, sign or prefix, or near the range limit, (4) escape or non-nibble bits, (5) unaligned/non-nibble bit-string or nested container; distinct = hash of the text",
    assumptions: &["spellings outside the stated grammars are only checked for totality/tiling"],
    max_len: 300,
    quick_cases: 120_000,
    thorough_cases: 6_000_000,
    case,
    systematic: None,
    both_profiles_quick: false,
    max_shrink_iters: 4000,
    exhaustive_note: None,
};

const FRAGS: &[&str] = &[
    " ", "\n", "\t", "\r", "\r\n", "\x0c", "\x0b", "\u{a0}", "\u{2003}", "\u{feff}", "\\", "\\ ", "\\(", "\\)", " \\) ", "\\( ", "\"", "“", "”", "|", "0", "1", "9", "0x", "0b", "_", ".", "+", "-", "e", "E",
    "a", "f", "F", "x", "z", "\\n", "\\\"", "\\\\", "\\q", "é", "日本", "😀", "abc", "12", "1.5", "-3", "0xff", "\u{0}", "\u{7f}", "\u{1b}", "(", ")", "[", "]", ":", ";", "#(", "~)", "'",
];

/// tiling / totality oracle on any text; returns (ntokens, had_literal_or_comment)
pub fn check_tiling(text: &str, out: &mut CaseOut) -> (usize, bool) {
    let mut lex = Lex::new(Xstr::from(text));
    let mut acc = String::new();
    let mut ntok = 0;
    let mut interesting = false;
    let limit = text.len() + 2;
    for _ in 0..=limit {
        let r = match guard(|| lex.next()) {
            Ok(r) => r,
            Err(p) => {
                out.fail(format!("panic in Lex::next: {}", p), format!("text {:?}", text));
                return (ntok, interesting);
            }
        };
        match r {
            Ok(Tok::EndOfInput) => {
                if acc != text {
                    out.fail("lexer: token texts do not reproduce the input", format!("text {:?}: tokens concatenate to {:?}", text, acc));
                }
                if !lex.last_substr().is_empty() {
                    out.fail("lexer: end-of-input token has text", format!("text {:?}", text));
                }
                return (ntok, interesting);
            }
            Ok(tok) => {
                let s = lex.last_substr();
                if s.is_empty() {
                    out.fail("lexer: token consumed no text", format!("text {:?} after {:?}: {:?}", text, acc, tok));
                    return (ntok, interesting);
                }
                if !text[acc.len()..].starts_with(s.as_str()) {
                    out.fail("lexer: token text is not the next piece of the input", format!("text {:?} after {:?}: token text {:?}", text, acc, s.as_str()));
                    return (ntok, interesting);
                }
                match &tok {
                    Tok::Word(w) | Tok::Whitespace(w) | Tok::Comment(w) => {
                        if w.as_str() != s.as_str() {
                            out.fail("lexer: token payload differs from its text", format!("text {:?}: payload {:?} text {:?}", text, w.as_str(), s.as_str()));
                            return (ntok, interesting);
                        }
                        if let Tok::Whitespace(w) = &tok {
                            if !w.chars().all(|c| c.is_ascii_whitespace()) {
                                out.fail("lexer: whitespace token contains other characters", format!("{:?}", w.as_str()));
                            }
                        }
                        if let Tok::Word(w) = &tok {
                            if w.chars().any(|c| c.is_ascii_whitespace()) {
                                out.fail("lexer: word token contains whitespace", format!("{:?}", w.as_str()));
                            }
                        }
                        if matches!(tok, Tok::Comment(_)) {
                            interesting = true;
                        }
                    }
                    Tok::Literal(_) => interesting = true,
                    Tok::EndOfInput => {}
                }
                acc.push_str(s.as_str());
                ntok += 1;
            }
            Err(_) => {
                // text up to the failing token must have been reproduced
                if !text.starts_with(&acc) {
                    out.fail("lexer: token texts before the error are not a prefix of the input", format!("text {:?}: {:?}", text, acc));
                }
                return (ntok, true);
            }
        }
    }
    out.fail("lexer: does not terminate", format!("text {:?}: more than len+2 tokens", text));
    (ntok, interesting)
}

fn lex_one(text: &str) -> Result<Result<Tok, Xerr>, String> {
    let mut lex = Lex::new(Xstr::from(text));
    guard(|| lex.next())
}

fn digits_with_underscores(ch: &mut Choices, digits: &str, used: &mut bool) -> String {
    let mut s = String::new();
    for (i, c) in digits.chars().enumerate() {
        s.push(c);
        let _ = i;
        if ch.chance(1, 7) {
            s.push('_');
            *used = true;
            if ch.chance(1, 5) {
                s.push('_');
            }
        }
    }
    s
}

fn int_spelling(ch: &mut Choices, out: &mut CaseOut, ctx: &CaseCtx) {
    // magnitude: 0 .. 2^130, biased to the i128 boundaries
    let mag: (u128, u8) = match ch.weighted(&[3, 3, 3, 2, 1]) {
        0 => (ch.below(1000) as u128, 0),
        1 => {
            let b = ch.below(128) as u32;
            (ch.u128() >> (127 - b), 0)
        }
        2 => {
            // around 2^127
            let d = ch.below(5) as u128;
            let base = 1u128 << 127;
            if ch.bool() { (base + d, 0) } else { (base - 1 - d, 0) }
        }
        3 => (ch.u128(), 0),
        _ => (ch.u128(), 1 + ch.below(3) as u8), // >= 2^128
    };
    let sign = ch.weighted(&[4, 3, 1]); // none, -, +
    let radix = ch.weighted(&[4, 3, 2, 2]); // 10, 0x, 0b, leading-zero hex
    // digits of the magnitude (with the optional high part mag.1 * 2^128)
    let to_digits = |r: u32| -> String {
        // big number = hi*2^128 + lo, rendered in radix r by repeated division
        let mut limbs = [mag.0 as u64, (mag.0 >> 64) as u64, mag.1 as u64];
        let mut ds = Vec::new();
        loop {
            let mut rem: u128 = 0;
            let mut all_zero = true;
            for i in (0..3).rev() {
                let cur = (rem << 64) | limbs[i] as u128;
                limbs[i] = (cur / r as u128) as u64;
                rem = cur % r as u128;
                if limbs[i] != 0 {
                    all_zero = false;
                }
            }
            ds.push(std::char::from_digit(rem as u32, r).unwrap());
            if all_zero {
                break;
            }
        }
        ds.iter().rev().collect()
    };
    let mut used_us = false;
    let mut digits = match radix {
        0 => to_digits(10),
        1 | 3 => {
            let d = to_digits(16);
            if ch.bool() { d.to_uppercase() } else { d }
        }
        _ => to_digits(2),
    };
    // extra leading zeros are part of the grammar (D+ / H+ / B+)
    if ch.chance(1, 6) && radix != 0 {
        digits = format!("0{}", digits);
    }
    if radix == 0 && digits.starts_with('0') && digits.len() > 1 {
        digits = digits.trim_start_matches('0').to_string();
    }
    if radix == 3 {
        // leading-zero hex: the first hex digit after 0 must not read as a prefix letter
        let first = digits.chars().next().unwrap().to_ascii_lowercase();
        if first == 'b' {
            digits = format!("0{}", digits);
        }
    }
    let body = digits_with_underscores(ch, &digits, &mut used_us);
    let text = format!(
        "{}{}{}",
        match sign { 1 => "-", 2 => "+", _ => "" },
        match radix { 1 => "0x", 2 => "0b", 3 => "0", _ => "" },
        body
    );
    // decimal literal "0": radix 0 with digits "0" – fine.  Decimal must not start with 0 unless it is 0 itself
    let text = if radix == 0 && digits == "0" { format!("{}0{}", match sign { 1 => "-", 2 => "+", _ => "" }, if used_us { "_" } else { "" }) } else { text };
    // expected value
    let expected: Option<i128> = if mag.1 != 0 {
        None
    } else if sign == 1 {
        if mag.0 <= (1u128 << 127) { Some((mag.0 as i128).wrapping_neg()) } else { None }
    } else if mag.0 < (1u128 << 127) {
        Some(mag.0 as i128)
    } else {
        None
    };
    let follow = *[" ", "", "\n", "\t x"].get(ch.below(4)).unwrap();
    let full = format!("{}{}", text, follow);
    match lex_one(&full) {
        Err(p) => out.fail(format!("panic lexing an integer literal: {}", p), full.clone()),
        Ok(r) => match (r, expected) {
            (Ok(Tok::Literal(Cell::Int(v))), Some(e)) if v == e => {}
            (Err(_), None) => {}
            (Ok(Tok::Literal(Cell::Int(v))), Some(e)) => out.fail(
                format!("integer literal denotes a wrong value ({})", ["decimal", "0x", "0b", "leading-zero hex"][radix]),
                format!("{:?} lexes as {}, expected {}", full, v, e),
            ),
            (Ok(t), None) => out.fail("out-of-range integer literal is accepted", format!("{:?} -> {:?}", full, t)),
            (r, Some(e)) => out.fail(
                format!("in-range integer literal is not read as an integer ({})", ["decimal", "0x", "0b", "leading-zero hex"][radix]),
                format!("{:?} -> {:?}, expected {}", full, r, e),
            ),
        },
    }
    check_tiling(&full, out);
    let near = mag.1 == 0 && (mag.0 >> 126) != 0;
    out.nontrivial = used_us || sign != 0 || radix != 0 || near;
    out.class("int-spelling");
    if near || mag.1 != 0 {
        out.class("int-near-or-beyond-range");
    }
    out.hash = hash_of(&full);
    if ctx.want_render || out.fail.is_some() {
        out.render = Some(format!("int literal {:?} expected {:?}", full, expected));
    }
}

fn real_spelling(ch: &mut Choices, out: &mut CaseOut, ctx: &CaseCtx) {
    let sign = ch.weighted(&[4, 3, 1]);
    let ni_max = if ch.bool() { 3 } else { 18 };
    let nint = 1 + ch.below(ni_max);
    let nf_max = if ch.bool() { 4 } else { 20 };
    let nfrac = ch.below(nf_max);
    let mut int_d: String = (0..nint).map(|_| std::char::from_digit(ch.below(10) as u32, 10).unwrap()).collect();
    let frac_d: String = (0..nfrac).map(|_| std::char::from_digit(ch.below(10) as u32, 10).unwrap()).collect();
    if int_d.is_empty() {
        int_d.push('0');
    }
    let has_exp = ch.chance(1, 3);
    let exp: i32 = if has_exp {
        match ch.below(3) {
            0 => ch.range(-22, 22) as i32,
            1 => ch.range(-340, 340) as i32,
            _ => ch.range(-5, 5) as i32,
        }
    } else {
        0
    };
    let mut used_us = false;
    let mut text = String::new();
    text.push_str(match sign { 1 => "-", 2 => "+", _ => "" });
    text.push_str(&digits_with_underscores(ch, &int_d, &mut used_us));
    text.push('.');
    text.push_str(&digits_with_underscores(ch, &frac_d, &mut used_us));
    let mut clean = format!("{}{}.{}", match sign { 1 => "-", 2 => "+", _ => "" }, int_d, frac_d);
    if has_exp {
        let e = if ch.bool() { "e" } else { "E" };
        let es = if exp < 0 { "-".to_string() } else if ch.bool() { "+".to_string() } else { String::new() };
        let ed = format!("{}", exp.abs());
        text.push_str(e);
        text.push_str(&es);
        text.push_str(&digits_with_underscores(ch, &ed, &mut used_us));
        clean.push_str(&format!("e{}{}", es, ed));
    }
    // expected: exact case when possible
    let sig: String = format!("{}{}", int_d, frac_d).trim_start_matches('0').to_string();
    let k = exp - nfrac as i32;
    let exact: Option<f64> = if sig.len() <= 15 && k.abs() <= 22 {
        let m: u64 = if sig.is_empty() { 0 } else { sig.parse().unwrap() };
        let p = 10f64.powi(k.abs()); // exact for <= 22
        let v = if k >= 0 { m as f64 * p } else { m as f64 / p };
        Some(if sign == 1 { -v } else { v })
    } else {
        None
    };
    let std: f64 = clean.parse().unwrap();
    if let Some(e) = exact {
        if e.to_bits() != std.to_bits() {
            // the harness' own two oracles disagree: not a verdict on the code
            out.discarded = true;
            return;
        }
    }
    let want = exact.unwrap_or(std);
    let follow = *[" ", "", "\n"].get(ch.below(3)).unwrap();
    let full = format!("{}{}", text, follow);
    match lex_one(&full) {
        Err(p) => out.fail(format!("panic lexing a real literal: {}", p), full.clone()),
        Ok(Ok(Tok::Literal(Cell::Real(r)))) if r.to_bits() == want.to_bits() => {}
        Ok(other) => out.fail("real literal differs from decimal-to-double conversion", format!("{:?} -> {:?}, expected {:?} ({:#x})", full, other, want, want.to_bits())),
    }
    check_tiling(&full, out);
    out.nontrivial = used_us || sign != 0 || has_exp;
    out.class("real-spelling");
    out.hash = hash_of(&full);
    if ctx.want_render || out.fail.is_some() {
        out.render = Some(format!("real literal {:?} expected {:?}", full, want));
    }
}

fn gen_string(ch: &mut Choices, maxlen: usize) -> String {
    let n = ch.below(maxlen + 1);
    let pool: Vec<char> = "ab Z09\\\"\n\r\t'|é日😀\u{0}\u{7f}\u{a0}“#()[]{}x.".chars().collect();
    (0..n)
        .map(|_| {
            if ch.chance(1, 8) {
                char::from_u32(ch.below(0x2fff) as u32 + 1).filter(|c| *c != '”').unwrap_or('q')
            } else {
                pool[ch.below(pool.len())]
            }
        })
        .collect()
}

fn string_literal(ch: &mut Choices, out: &mut CaseOut, ctx: &CaseCtx) {
    let s = gen_string(ch, 24);
    let lit = xs::str_lit(&s);
    let variant = ch.weighted(&[6, 2, 2]);
    let (full, expect_err) = match variant {
        0 => (format!("{}{}", lit, *[" ", "", "\n"].get(ch.below(3)).unwrap()), false),
        1 => {
            // unknown escape inserted
            let bad = *["\\q", "\\0", "\\x", "\\'", "\\é", "\\ "].get(ch.below(6)).unwrap();
            let pos = 1 + ch.below(lit.len().max(2) - 1);
            let mut p = pos.min(lit.len() - 1);
            while !lit.is_char_boundary(p) {
                p -= 1;
            }
            // do not split an escape pair
            let before = &lit[..p];
            let trailing_bs = before.chars().rev().take_while(|c| *c == '\\').count();
            if trailing_bs % 2 == 1 || p == 0 {
                (format!("{} ", lit), false)
            } else {
                (format!("{}{}{} ", before, bad, &lit[p..]), true)
            }
        }
        _ => {
            // unterminated: drop the closing quote
            (lit[..lit.len() - 1].to_string(), true)
        }
    };
    match lex_one(&full) {
        Err(p) => out.fail(format!("panic lexing a string literal: {}", p), full.clone()),
        Ok(Ok(Tok::Literal(Cell::Str(got)))) if !expect_err && got.as_str() == s => {}
        Ok(Err(_)) if expect_err => {}
        Ok(other) => out.fail(
            if expect_err { "malformed string literal is accepted" } else { "string literal does not decode to the original" },
            format!("{:?} -> {:?} (original {:?})", full, other, s),
        ),
    }
    check_tiling(&full, out);
    out.nontrivial = s.chars().any(|c| "\\\"\n\r\t".contains(c)) || expect_err || !s.is_ascii();
    out.class("string-literal");
    out.hash = hash_of(&full);
    if ctx.want_render || out.fail.is_some() {
        out.render = Some(format!("string literal {:?}", full));
    }
}

fn bitstr_literal(ch: &mut Choices, out: &mut CaseOut, ctx: &CaseCtx) {
    let n = ch.below(30);
    let mut text = String::from("|");
    let mut bits: Vec<bool> = Vec::new();
    let mut nonnibble = false;
    for _ in 0..n {
        match ch.weighted(&[5, 2, 2, 2]) {
            0 => {
                let d = ch.below(16) as u32;
                let c = std::char::from_digit(d, 16).unwrap();
                text.push(if ch.bool() { c.to_ascii_uppercase() } else { c });
                for i in (0..4).rev() {
                    bits.push((d >> i) & 1 == 1);
                }
            }
            1 => {
                text.push('x');
                bits.push(true);
                nonnibble = true;
            }
            2 => {
                text.push('.');
                bits.push(false);
                nonnibble = true;
            }
            _ => text.push(*[' ', '\n', '\t', '\r'].get(ch.below(4)).unwrap()),
        }
    }
    let bad = ch.chance(1, 6);
    if bad {
        text.push(*['g', 'X', '-', '"', 'é', '_'].get(ch.below(6)).unwrap());
    }
    let unterminated = !bad && ch.chance(1, 8);
    if !unterminated {
        text.push('|');
    }
    let full = format!("{}{}", text, if unterminated { "" } else { *[" ", "", "\n"].get(ch.below(3)).unwrap() });
    match lex_one(&full) {
        Err(p) => out.fail(format!("panic lexing a bit-string literal: {}", p), full.clone()),
        Ok(Ok(Tok::Literal(Cell::Bitstr(bs)))) if !bad && !unterminated && xs::bits_of(&bs) == bits => {}
        Ok(Err(_)) if bad || unterminated => {}
        Ok(other) => out.fail(
            if bad || unterminated { "malformed bit-string literal is accepted" } else { "bit-string literal denotes wrong bits" },
            format!("{:?} -> {:?}, expected {}", full, other, xs::bits_lit(&bits)),
        ),
    }
    check_tiling(&full, out);
    out.nontrivial = nonnibble || bad || unterminated;
    out.class("bitstr-literal");
    out.hash = hash_of(&full);
    if ctx.want_render || out.fail.is_some() {
        out.render = Some(format!("bit-string literal {:?}", full));
    }
}

fn gen_printable(ch: &mut Choices, depth: usize, nested: &mut bool, odd: &mut bool) -> Cell {
    let k = if depth == 0 { ch.weighted(&[3, 3]) } else { ch.weighted(&[3, 3, 2, 2]) };
    match k {
        0 => match ch.weighted(&[3, 2, 2]) {
            0 => Cell::Int(ch.range(-1000, 1000) as i128),
            1 => Cell::Int(ch.u128() as i128),
            _ => Cell::Int(*[i128::MAX, i128::MIN, i128::MIN + 1, 0, -1].get(ch.below(5)).unwrap()),
        },
        1 => {
            // (1 in 6 long: more than a screen line of hex)
            let len = if ch.chance(1, 6) { 200 + ch.below(300) } else { ch.below(71) };
            let off = ch.below(8);
            let mut all: Vec<bool> = (0..off).map(|_| true).collect();
            for _ in 0..len {
                all.push(ch.bool());
            }
            all.push(true);
            if off != 0 || len % 4 != 0 {
                *odd = true;
            }
            Cell::Bitstr(xs::bitstr_from_bits(&all).substr(off, off + len).unwrap())
        }
        2 => {
            *nested = true;
            let n = if ch.chance(1, 6) { 10 + ch.below(16) } else { ch.below(5) };
            let mut v = Xvec::new();
            for _ in 0..n {
                v.push_back_mut(gen_printable(ch, depth - 1, nested, odd));
            }
            Cell::from(v)
        }
        _ => {
            *nested = true;
            let n = if ch.chance(1, 6) { 10 + ch.below(16) } else { ch.below(4) };
            let mut m = Xmap::new();
            for _ in 0..n {
                let k = Cell::Int(ch.range(-50, 50) as i128);
                let v = gen_printable(ch, depth - 1, nested, odd);
                m.insert_mut(k, v);
            }
            Cell::Map(m)
        }
    }
}

fn print_read(ch: &mut Choices, out: &mut CaseOut, ctx: &CaseCtx) {
    let mut nested = false;
    let mut odd = false;
    let v = gen_printable(ch, 3, &mut nested, &mut odd);
    let mut xs = xs::fresh();
    xs.set_insn_limit(Some(100_000)).unwrap();
    // three printers: format_cell (what the embedder calls), the `print` word, and the plain Debug rendering that error
    // messages and the REPL's stack view are built from
    let route = ch.weighted(&[3, 2, 2]);
    let text = match route {
        0 => match guard(|| xs.format_cell(&v)) {
            Ok(Ok(t)) => t,
            other => {
                out.fail("format_cell fails", format!("{:?} -> {:?}", v, other));
                return;
            }
        },
        1 => {
            xs.intercept_output(true).unwrap();
            xs.push_data(v.clone()).unwrap();
            match guard(|| xs.eval("print")) {
                Ok(Ok(())) => xs::take_stdout(&mut xs),
                other => {
                    out.fail("print fails", format!("{:?} -> {:?}", v, other.map(|r| xs::render_res(&r))));
                    return;
                }
            }
        }
        _ => match guard(|| format!("{:?}", v)) {
            Ok(t) => t,
            Err(pm) => {
                out.fail(format!("panic: {}", pm), "Debug rendering of a value".to_string());
                return;
            }
        },
    };
    out.class(["printed-by-format_cell", "printed-by-print-word", "printed-by-debug-rendering"][route]);
    match guard(|| xs.eval(&text)) {
        Err(p) => out.fail(format!("panic evaluating printed value: {}", p), text.clone()),
        Ok(Err(e)) => out.fail("printed value does not read back", format!("{:?} -> {:?}", text, e)),
        Ok(Ok(())) => {
            if xs.data_depth() != 1 {
                out.fail("printed value reads back as several values", format!("{:?} leaves {} items", text, xs.data_depth()));
            } else {
                let got = xs.pop_data().unwrap();
                let same_type = std::mem::discriminant(got.value()) == std::mem::discriminant(v.value());
                // compared bit by bit through bits() as well: the language's equality of bit-strings walks the same
                // 8-bit groups as the printer, so it cannot be the only judge of the printer
                if got != v || !same_type || xs::render(&got) != xs::render(&v) {
                    out.fail(
                        format!("print/read round trip differs ({})", match v.value() { Cell::Int(_) => "int", Cell::Bitstr(_) => "bitstr", Cell::Vector(_) => "vector", _ => "map" }),
                        format!("{:?} printed as {:?} reads back as {:?}", xs::render(&v), text, xs::render(&got)),
                    );
                }
            }
        }
    }
    out.nontrivial = nested || odd;
    out.class("print-read");
    out.hash = hash_of(&text);
    if ctx.want_render || out.fail.is_some() {
        out.render = Some(format!("print/read {:?}", text));
    }
}

pub fn case(ch: &mut Choices, ctx: &CaseCtx) -> CaseOut {
    let mut out = CaseOut::default();
    match ch.weighted(&[6, 4, 3, 2, 2, 2]) {
        0 => {
            let n = ch.below(41);
            let mut text = String::new();
            for _ in 0..n {
                if ch.chance(1, 10) {
                    if let Some(c) = char::from_u32(ch.below(0x11000) as u32) {
                        text.push(c);
                    }
                } else {
                    text.push_str(FRAGS[ch.below(FRAGS.len())]);
                }
            }
            let (ntok, interesting) = check_tiling(&text, &mut out);
            out.nontrivial = ntok >= 3 && interesting;
            out.class("tiling");
            out.hash = hash_of(&text);
            if ctx.want_render || out.fail.is_some() {
                out.render = Some(format!("text {:?}", text));
            }
        }
        1 => int_spelling(ch, &mut out, ctx),
        2 => real_spelling(ch, &mut out, ctx),
        3 => string_literal(ch, &mut out, ctx),
        4 => bitstr_literal(ch, &mut out, ctx),
        _ => print_read(ch, &mut out, ctx),
    }
    out
}
