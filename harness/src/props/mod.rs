// Registry of property checks.
use crate::common::*;
use crate::PropDef;

pub mod c01;
pub mod c02;
pub mod c03;
pub mod c04;
pub mod c05;
pub mod c06;
pub mod c07;
pub mod c09;
pub mod c10;
pub mod c11;
pub mod c12;
pub mod c13;
pub mod c14;
pub mod c15;
pub mod c16;
pub mod c17;
pub mod c18;

pub fn all() -> &'static [PropDef] {
    static ALL: &[PropDef] = &[c01::DEF, c02::DEF, c03::DEF, c04::DEF, c05::DEF, c06::DEF, c07::DEF, c09::DEF, c10::DEF, c11::DEF, c12::DEF, c13::DEF, c14::DEF, c15::DEF, c16::DEF, c17::DEF, c18::DEF];
    ALL
}

/// A worker died (signal / abort).  Properties that attribute process death
/// to the in-flight case (C08) handle it here; others report "inconclusive".
pub fn worker_died(
    _id: &str,
    _rundir: &str,
    _profile: &str,
    _k: usize,
    _stderr: &str,
    _viol: &mut Vec<(String, Violation)>,
    _known: &[KnownFinding],
) -> bool {
    false
}
