// Registry of property checks.
use crate::common::*;
use crate::PropDef;

pub mod c01;
pub mod replbin;
pub mod c02;
pub mod c03;
pub mod c04;
pub mod c05;
pub mod c06;
pub mod c07;
pub mod c08;
pub mod c09;
pub mod c10;
pub mod c11;
pub mod c12;
pub mod c13;
pub mod c14;
pub mod c15;
pub mod c16;
pub mod c17;
pub mod c18;

pub fn all() -> &'static [PropDef] {
    static ALL: &[PropDef] = &[c01::DEF, c02::DEF, c03::DEF, c04::DEF, c05::DEF, c06::DEF, c07::DEF, c08::DEF, c09::DEF, c10::DEF, c11::DEF, c12::DEF, c13::DEF, c14::DEF, c15::DEF, c16::DEF, c17::DEF, c18::DEF];
    ALL
}

/// A worker died (signal / abort).  For C08 the death is attributed to the in-flight case by re-running the
/// worker in careful mode (every case is written to a file before it runs); an out-of-memory abort is inconclusive.
/// Other properties report "inconclusive".
pub fn worker_died(
    id: &str,
    rundir: &str,
    profile: &str,
    k: usize,
    stderr: &str,
    viol: &mut Vec<(String, Violation)>,
    _known: &[KnownFinding],
    rerun: &dyn Fn(&str) -> bool,
) -> bool {
    if id != "C08" {
        return false;
    }
    if stderr.contains("memory allocation of") {
        return false; // the statement's proviso: allocation sizes are modest; the address-space cap was hit
    }
    let note = format!("{}/careful-{}-{}.txt", rundir, profile, k);
    let _ = std::fs::remove_file(&note);
    let died_again = rerun(&note);
    if !died_again {
        return false;
    }
    let text = std::fs::read_to_string(&note).unwrap_or_default();
    let mut direct = false;
    let mut choices: Vec<u32> = Vec::new();
    for l in text.lines() {
        if let Some(v) = l.strip_prefix("mode=") {
            direct = v.trim() == "direct";
        }
        if let Some(v) = l.strip_prefix("choices=") {
            choices = v.split(',').filter_map(|x| x.trim().parse().ok()).collect();
        }
    }
    let what = stderr.lines().rev().find(|l| !l.trim().is_empty()).unwrap_or("").to_string();
    viol.push((
        profile.to_string(),
        Violation {
            sig: format!("abort: the process died while running a case ({})", normalise(&what).chars().take(80).collect::<String>()),
            detail: format!("worker {}-{} died twice on this case; last stderr line: {}", profile, k, what),
            choices,
            direct,
            render: "(the case kills the process; replay it with ./check C08 --replay <file>)".to_string(),
        },
    ));
    true
}
