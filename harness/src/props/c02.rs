// C02 — reverse stepping exactly undoes forward stepping, and replay reproduces it.
use crate::common::*;
use crate::ext;
use crate::xs;
use crate::PropDef;
use xeh::prelude::*;

pub const DEF: PropDef = PropDef {
    id: "C02",
    rule: "programs = control-flow backbone (calls/returns, recursion, locals incl. re-initialisation inside loops and declarations under untaken branches, do/begin loops, break, case, variable stores) + snippets for over/rot/swap/dup/drop, vector/map/tag builders, foreach over vectors and maps, let destructuring, late words, collect/unbox, bit-string cursor reads (open-bitstr u8 bits seek close-bitstr), emit; no meta blocks. 1 case in 4 is instead a straight-line program over the whole native dictionary (every word of C13's typed table with literal arguments that make it succeed, a binary input open). \
The program is compiled with recording switched on (before or after compile) and driven by a generated walk of Fwd(a)/Back(b) moves inside [0, horizon] where horizon = the number of consecutive successful steps (measured on a throw-away clone). \
Oracle (history invariant): the first time a position is reached its state (ip, whole data stack, call frames with locals, loop frames with their items, builder marks, every heap cell) is stored; after every single rnext() and every single re-executed next() the state must equal the stored state of the new position. Every walk ends with a full rewind to position 0 (where one more rnext() must change nothing) and a full replay to the farthest position. When the program's next step then fails (1 program in 3 has a failing tail), either the walk steps back from the failure (the first back-step restores the position of the failure or, when the failed instruction had changed nothing, the one before; then exact positions), or a second program is compiled, stepped 3 forward and 3 back: each position must be restored exactly - what the failed instruction changed before failing stays with the failed step. 1 case in 6 runs under a small stack limit, so that the failing step is a refused push. \
Non-trivial = the walk has a Back of >=2 steps followed by a Fwd and the program executes a call, loop iteration, break, local, store, builder or cursor move; distinct = hash of program and walk",
    assumptions: &["instruction meter, captured stdout, last error and the log itself are not part of the compared state (the statement does not list them)"],
    max_len: 700,
    quick_cases: 48_000,
    thorough_cases: 600_000,
    case,
    systematic: None,
    both_profiles_quick: false,
    max_shrink_iters: 8000,
    exhaustive_note: None,
};

fn dump(xs: &Xstate) -> Vec<(&'static str, String)> {
    xs.verif_sections().into_iter().filter(|(k, _)| ["ip", "data_stack", "return_stack", "loops", "special", "heap"].contains(k)).collect()
}

fn first_diff(a: &[(&'static str, String)], b: &[(&'static str, String)]) -> Option<(&'static str, String, String)> {
    a.iter().zip(b.iter()).find(|(x, y)| x != y).map(|(x, y)| (x.0, x.1.clone(), y.1.clone()))
}

fn opname(xs: &Xstate, ip: usize) -> String {
    let s = xs.verif_opcode_at(ip).unwrap_or_else(|| "end".into());
    // keep the opcode kind and, for native calls, the word name; drop addresses
    let mut it = s.split_whitespace();
    let kind = it.next().unwrap_or("").to_string();
    if kind == "nativecall" || kind == "call" {
        let name = s.rsplit('#').next().unwrap_or("").trim().to_string();
        format!("{} {}", kind, name)
    } else {
        kind
    }
}

pub fn case(ch: &mut Choices, ctx: &CaseCtx) -> CaseOut {
    let mut out = CaseOut::default();
    let big = ctx.tier_thorough;
    let fail_tail = ch.chance(1, 3);
    let p = if ch.chance(1, 4) { ext::dictionary(ch, if big { 10 } else { 5 }) } else { ext::generate(ch, &ext::ExtOpts { meta: false, failing: fail_tail, max_items: if big { 8 } else { 4 }, backbone_nodes: if big { 50 } else { 20 } }) };
    let mut xs = xs::fresh();
    xs.intercept_output(true).unwrap();
    xs.set_insn_limit(Some(200_000)).unwrap();
    let rec_before = ch.bool();
    let mut stack_limited = false;
    if ch.chance(1, 3) {
        // something on the stack and in a variable before the program
        let _ = guard(|| xs.eval("11 22 5 var pre_v"));
        let _ = xs.read_stdout();
    }
    if rec_before {
        xs.set_recording_enabled(true);
    }
    let render0 = format!("recording enabled {} compile\nprogram: {}", if rec_before { "before" } else { "after" }, p.source.replace('\n', "\u{23ce}"));
    match guard(|| xs.compile(&p.source)) {
        Ok(Ok(())) => {}
        Ok(Err(_)) => {
            out.discarded = true;
            return out;
        }
        Err(pm) => {
            out.fail(format!("panic: {}", pm), render0);
            return out;
        }
    }
    if !rec_before {
        xs.set_recording_enabled(true);
    }
    // 1 case in 6: a small data stack limit, so that the step that ends the walk is a push refused by the limit
    if ch.chance(1, 6) {
        let l = xs.data_depth() + 1 + ch.below(5);
        xs.set_stack_limit(Some(l)).unwrap();
        stack_limited = true;
    }
    let cap = if big { 1500 } else { 300 };
    // horizon on a throw-away clone
    let horizon = {
        let mut t = xs.clone();
        let mut n = 0usize;
        while t.is_running() && n < cap {
            match guard(|| t.next()) {
                Ok(Ok(())) => n += 1,
                _ => break,
            }
        }
        n
    };
    if horizon == 0 {
        out.discarded = true;
        return out;
    }
    let mut states: Vec<Vec<(&'static str, String)>> = vec![dump(&xs)];
    let mut ops_at: Vec<String> = Vec::new(); // opcode executed by step k -> k+1
    let mut pos = 0usize;
    let mut walk: Vec<String> = Vec::new();
    let mut back2_then_fwd = false;
    let mut last_back = 0usize;
    let nmoves = 2 + ch.below(if big { 14 } else { 8 });
    let mut script: Vec<(bool, usize)> = Vec::new();
    for _ in 0..nmoves {
        let fwd = ch.chance(3, 5);
        let amount = 1 + match ch.weighted(&[5, 3, 1]) {
            0 => ch.below(6),
            1 => ch.below(40),
            _ => ch.below(cap),
        };
        script.push((fwd, amount));
    }
    // always end with: full rewind, an extra rnext at the start, full replay
    script.push((false, usize::MAX));
    script.push((true, usize::MAX));
    let mut fail: Option<(String, String)> = None;
    'walk: for (fwd, amount) in script {
        if fwd {
            let n = amount.min(horizon - pos);
            if n > 0 && last_back >= 2 {
                back2_then_fwd = true;
            }
            if n > 0 {
                last_back = 0;
            }
            walk.push(format!("fwd {}", n));
            for _ in 0..n {
                let ip = xs.ip();
                let op = opname(&xs, ip);
                match guard(|| xs.next()) {
                    Ok(Ok(())) => {}
                    Ok(Err(e)) => {
                        fail = Some((format!("replaying {}: step fails on replay", op), format!("forward step {} -> {} failed with {} (it succeeded when first executed)", pos, pos + 1, xs::render_err(&e))));
                        break 'walk;
                    }
                    Err(pm) => {
                        fail = Some((format!("panic: {}", pm), format!("forward step at position {}", pos)));
                        break 'walk;
                    }
                }
                pos += 1;
                let d = dump(&xs);
                if pos == states.len() {
                    states.push(d);
                    ops_at.push(op);
                } else if let Some((sec, got, want)) = first_diff(&d, &states[pos]) {
                    fail = Some((format!("replaying {}: {} differs from the original execution", ops_at[pos - 1], sec), format!("after re-executing step {} -> {}: {} is\n  {}\noriginally\n  {}", pos - 1, pos, sec, got, want)));
                    break 'walk;
                }
            }
        } else {
            let n = amount.min(pos);
            walk.push(format!("back {}", n));
            last_back = n;
            for _ in 0..n {
                match guard(|| xs.rnext()) {
                    Ok(Ok(())) => {}
                    Ok(Err(e)) => {
                        fail = Some((format!("undoing {}: rnext fails", ops_at[pos - 1]), format!("rnext from position {} failed with {}", pos, xs::render_err(&e))));
                        break 'walk;
                    }
                    Err(pm) => {
                        fail = Some((format!("panic: {}", pm), format!("rnext at position {}", pos)));
                        break 'walk;
                    }
                }
                pos -= 1;
                let d = dump(&xs);
                if let Some((sec, got, want)) = first_diff(&d, &states[pos]) {
                    fail = Some((format!("undoing {}: {} not restored", ops_at[pos], sec), format!("after rnext {} -> {}: {} is\n  {}\nbut was\n  {}", pos + 1, pos, sec, got, want)));
                    break 'walk;
                }
            }
            if amount == usize::MAX {
                // at the start one more rnext must change nothing
                let r = guard(|| xs.rnext());
                let d = dump(&xs);
                if !matches!(r, Ok(Ok(()))) || first_diff(&d, &states[0]).is_some() {
                    fail = Some(("rnext at the start is not a no-op".to_string(), format!("{:?}", first_diff(&d, &states[0]))));
                    break 'walk;
                }
            }
        }
    }
    // ---- a step that fails, then another program stepped forward and back ---------------------------------
    // (the failed instruction keeps whatever it changed before failing; those changes belong to the failed step and
    // must not be undone together with a later instruction)
    let mut after_failure = false;
    if fail.is_none() && pos == horizon && horizon < cap && xs.is_running() {
        let in_place = ch.bool();
        let failed = matches!(guard(|| xs.next()), Ok(Err(_)));
        if failed && in_place {
            // stepping back from the failure inside the same program: the first back-step either only takes back what
            // the failed instruction had changed (position = horizon) or, when it had changed nothing, the last
            // successful step (horizon - 1); from there on every position must be restored exactly
            after_failure = true;
            walk.push("the next step fails; then 3 steps back from the failure".to_string());
            let r = guard(|| xs.rnext());
            let d = dump(&xs);
            let at = if !matches!(r, Ok(Ok(()))) {
                None
            } else if first_diff(&d, &states[horizon]).is_none() {
                Some(horizon)
            } else if horizon >= 1 && first_diff(&d, &states[horizon - 1]).is_none() {
                Some(horizon - 1)
            } else {
                None
            };
            match at {
                None => {
                    let (sec, got, want) = first_diff(&d, &states[horizon]).unwrap_or(("", String::new(), String::new()));
                    fail = Some(("stepping back from a failed step reaches a state that never existed".to_string(), format!("after the failed step and one rnext: {} is\n  {}\nat the failure point it was\n  {}", sec, got, want)));
                }
                Some(mut p) => {
                    for _ in 0..2 {
                        if p == 0 {
                            break;
                        }
                        match guard(|| xs.rnext()) {
                            Ok(Ok(())) => {
                                p -= 1;
                                if let Some((sec, got, want)) = first_diff(&dump(&xs), &states[p]) {
                                    fail = Some((format!("undoing {} after a failed step: {} not restored", ops_at[p], sec), format!("after rnext {} -> {}: {} is\n  {}\nbut was\n  {}", p + 1, p, sec, got, want)));
                                    break;
                                }
                            }
                            _ => {
                                fail = Some(("rnext fails after a failed step".to_string(), format!("at position {}", p)));
                                break;
                            }
                        }
                    }
                }
            }
        } else if failed {
            let second = ["11 22 swap drop", "5 dup drop drop", "[ 1 2 ] length drop"][ch.below(3)];
            let _ = xs.set_stack_limit(None);
            if let Ok(Ok(())) = guard(|| xs.compile(second)) {
                after_failure = true;
                walk.push(format!("the next step fails; then `{}` is compiled, stepped 3 forward and 3 back", second));
                let mut t: Vec<Vec<(&'static str, String)>> = vec![dump(&xs)];
                for k in 0..3 {
                    match guard(|| xs.next()) {
                        Ok(Ok(())) => t.push(dump(&xs)),
                        Ok(Err(e)) => {
                            fail = Some(("a program submitted after a failed step fails".to_string(), format!("step {}: {}", k, xs::render_err(&e))));
                            break;
                        }
                        Err(pm) => {
                            fail = Some((format!("panic: {}", pm), "stepping the second program".to_string()));
                            break;
                        }
                    }
                }
                if fail.is_none() {
                    for k in (0..3).rev() {
                        match guard(|| xs.rnext()) {
                            Ok(Ok(())) => {
                                if let Some((sec, got, want)) = first_diff(&dump(&xs), &t[k]) {
                                    fail = Some((format!("undoing a step taken after a failed step: {} not restored", sec), format!("after rnext {} -> {} of the second program: {} is\n  {}\nbut was\n  {}", k + 1, k, sec, got, want)));
                                    break;
                                }
                            }
                            Ok(Err(e)) => {
                                fail = Some(("undoing a step taken after a failed step: rnext fails".to_string(), xs::render_err(&e)));
                                break;
                            }
                            Err(pm) => {
                                fail = Some((format!("panic: {}", pm), "rnext in the second program".to_string()));
                                break;
                            }
                        }
                    }
                }
            }
        }
    }
    let render = format!("{}\nhorizon {} steps; walk: {}", render0, horizon, walk.join(", "));
    if let Some((sig, detail)) = fail {
        out.fail(sig, format!("{}\n{}", detail, render));
    }
    let kinds = ["call", "do-loop", "break", "local", "foreach-vec", "foreach-map", "vec-builder", "map-builder", "cursor-reads", "until", "while", "locals", "let-global", "let-local", "tags", "late-word", "recursion", "local-in-loop", "dictionary-words"];
    let interesting = p.features.iter().any(|f| kinds.contains(f));
    out.nontrivial = back2_then_fwd && interesting;
    for f in &p.features {
        out.class(f);
    }
    if after_failure {
        out.class("failed-step-then-stepped-back");
    }
    if stack_limited {
        out.class("stack-limit-set");
    }
    if back2_then_fwd {
        out.class("back>=2-then-forward");
    }
    out.hash = hash_of(&(p.source.clone(), walk.clone(), rec_before));
    if ctx.want_render || out.fail.is_some() {
        out.render = Some(render);
    }
    out
}
