// C06 — parsing cursor: a read returns exactly the requested bits and advances that far.
use crate::common::*;
use crate::props::c05::{ref_decode_int, ref_decode_uint};
use crate::xs::{self, bits_lit, bits_of, bitstr_from_bits};
use crate::PropDef;
use xeh::prelude::*;

pub const DEF: PropDef = PropDef {
    id: "C06",
    rule: "histories of <=30 (quick) / <=60 (thorough) parsing words, one word per eval, on an interpreter whose input is a generated bit-string (0-200 bits, start/end at every alignment via the API or a literal, nested open-bitstr of literals and of slices read from the current input). \
Words: bits bytes u8..i64(le|be) int uint f32 f64 float magic seek find remain offset nulbytestr cstr open-bitstr close-bitstr big little; size/position arguments valid, just past the end, and from {2^31,2^61,2^63-1,2^63,2^64-1,2^64,2^64+k,i128 max,-1,i128 min}; 1 read in 8 runs with the data stack full (stack limit = current depth), so the value cannot be delivered and the read must fail leaving everything as it was. \
A stack-of-cursors model with unbounded-integer arithmetic predicts success/failure, the returned bits/number/text and the new cursor; after every op input, offset, remain and the data stack below the operands are read back and compared. \
Non-trivial = the history has a failing op followed by a succeeding read, or a nested open/close, or an unaligned read; distinct = hash of the op list",
    assumptions: &[
        "absolute offsets are observed through Bitstr::start() of the `input` variable; the model tracks the cursor relative to it",
        "on failure the word's own operands may or may not have been consumed (the statement protects 'the rest of the data stack')",
        "int/uint of width 0 may fail or return 0 (no width-0 semantics is stated); width > 128 (signed) / > 127 (unsigned, pinned by the suite) must fail",
    ],
    max_len: 600,
    quick_cases: 120_000,
    thorough_cases: 1_500_000,
    case,
    systematic: None,
    both_profiles_quick: true,
    max_shrink_iters: 8000,
    exhaustive_note: None,
};

#[derive(Clone)]
struct Lvl {
    bits: Vec<bool>,
    rel: usize,
}

fn boundary(ch: &mut Choices, k: usize) -> i128 {
    let k = k as i128;
    let set: [i128; 14] = [
        1 << 31,
        1 << 61,
        (1 << 61) + k,
        (1 << 63) - 1,
        1 << 63,
        (1i128 << 64) - 1,
        1i128 << 64,
        (1i128 << 64) + k,
        (1i128 << 64) + 8 * k,
        (1i128 << 65) + k,
        i128::MAX,
        -1,
        i128::MIN,
        -k - 1,
    ];
    set[ch.below(set.len())]
}

/// a size argument: mostly valid, sometimes just past the end, sometimes hostile
fn size_arg(ch: &mut Choices, remaining: usize, unit: usize) -> i128 {
    let rem_units = remaining / unit;
    match ch.weighted(&[8, 2, 2]) {
        0 => ch.below(rem_units + 1) as i128,
        1 => (rem_units + 1 + ch.below(9)) as i128,
        _ => {
            let k = ch.below(rem_units + 2);
            boundary(ch, k)
        }
    }
}

fn obs_input(xs: &Xstate) -> Option<(Vec<bool>, usize, usize)> {
    match xs.get_var_value("input") {
        Ok(c) => match c.value() {
            Cell::Bitstr(b) => Some((bits_of(b), b.start(), b.end())),
            _ => None,
        },
        Err(_) => None,
    }
}

fn obs_offset(xs: &Xstate) -> Option<i128> {
    match xs.get_var_value("offset") {
        Ok(c) => match c.value() {
            Cell::Int(i) => Some(*i),
            _ => None,
        },
        Err(_) => None,
    }
}

fn show(b: &[bool]) -> String {
    b.iter().map(|x| if *x { '1' } else { '0' }).collect()
}

enum Expect {
    /// must fail, nothing moves
    Fail,
    /// succeeds; new rel; pushed values (rendered by a comparison closure)
    Bits(Vec<bool>, usize),
    Uint(u128, usize, usize),
    Int(i128, usize, usize),
    F(f64, usize, usize),
    Text(String, usize),
    Position(Option<i128>),
    /// succeeds pushing nothing, cursor at rel
    Moved(usize),
    /// either fails or behaves as the inner expectation
    Either(Box<Expect>),
    /// open/close/byte order: handled separately
    Structural,
}

pub fn case(ch: &mut Choices, ctx: &CaseCtx) -> CaseOut {
    let mut out = CaseOut::default();
    let mut xs = xs::fresh();
    xs.set_insn_limit(Some(100_000)).unwrap();
    let max_ops = if ctx.tier_thorough { 60 } else { 30 };
    let mut log: Vec<String> = Vec::new();
    let mut model: Vec<Lvl> = vec![Lvl { bits: vec![], rel: 0 }];
    let mut big = false;
    // junk that must stay on the stack under everything
    let njunk = ch.below(3);
    let mut junk: Vec<String> = Vec::new();
    for i in 0..njunk {
        let v = Cell::Int(1000 + i as i128 * 7 + ch.below(5) as i128);
        junk.push(xs::render(&v));
        xs.push_data(v).unwrap();
    }
    // initial input through the API, at a generated alignment
    {
        let nbytes = ch.below(if ctx.tier_thorough { 40 } else { 26 });
        let bytes = ch.bytes(nbytes);
        let total = nbytes * 8;
        let st = if ch.chance(1, 2) { ch.below(8.min(total + 1)) } else { 0 };
        let cut = if ch.chance(1, 2) { ch.below(8.min(total - st + 1)) } else { 0 };
        let en = total - cut;
        let whole = xeh::bitstr::Bitstr::from(bytes);
        let bs = whole.substr(st, en).unwrap();
        let mbits = bits_of(&bs);
        log.push(format!("set_binary_input(start%8={}, len={}) {}", st % 8, mbits.len(), show(&mbits)));
        if xs.set_binary_input(bs).is_err() {
            out.fail("set_binary_input failed", "");
        }
        model.push(Lvl { bits: mbits, rel: 0 });
    }
    let mut saw_fail = false;
    let mut fail_then_read = false;
    let mut nested = false;
    let mut unaligned_read = false;
    let mut stack_full_reads = 0usize;
    let nops = 1 + ch.below(max_ops);
    for _ in 0..nops {
        if out.fail.is_some() {
            break;
        }
        let (ibits, istart, iend) = match obs_input(&xs) {
            Some(x) => x,
            None => {
                out.fail("input variable is not a bit-string", log.join("\n"));
                break;
            }
        };
        let cur = model.last().unwrap().clone();
        let len = cur.bits.len();
        let remaining = len - cur.rel;
        let before_off = obs_offset(&xs);
        // ---- choose an op ----------------------------------------------
        let kind = ch.weighted(&[10, 5, 8, 6, 3, 5, 6, 4, 2, 4, 5, 4, 2, 2]);
        let src: String;
        let arity: usize;
        let expect: Expect;
        let rest = &cur.bits[cur.rel..];
        match kind {
            0 => {
                let n = size_arg(ch, remaining, 1);
                src = format!("{} bits", n);
                arity = 1;
                expect = if n >= 0 && (n as u128) <= remaining as u128 {
                    let n = n as usize;
                    Expect::Bits(rest[..n].to_vec(), cur.rel + n)
                } else {
                    Expect::Fail
                };
            }
            1 => {
                let n = size_arg(ch, remaining, 8);
                src = format!("{} bytes", n);
                arity = 1;
                expect = if n >= 0 && (n as u128).saturating_mul(8) <= remaining as u128 {
                    let n = n as usize * 8;
                    Expect::Bits(rest[..n].to_vec(), cur.rel + n)
                } else {
                    Expect::Fail
                };
            }
            2 => {
                let w = [8usize, 16, 32, 64][ch.below(4)];
                let signed = ch.bool();
                let sfx = ch.below(3);
                let obig = match sfx {
                    0 => big,
                    1 => false,
                    _ => true,
                };
                src = format!("{}{}{}", if signed { "i" } else { "u" }, w, ["", "le", "be"][sfx]);
                arity = 0;
                expect = if w <= remaining {
                    let f = &rest[..w];
                    if signed {
                        Expect::Int(ref_decode_int(f, obig), w, cur.rel + w)
                    } else {
                        Expect::Uint(ref_decode_uint(f, obig), w, cur.rel + w)
                    }
                } else {
                    Expect::Fail
                };
            }
            3 => {
                let signed = ch.bool();
                let n = if ch.chance(3, 4) { ch.below(remaining.min(130) + 2) as i128 } else { size_arg(ch, remaining, 1) };
                src = format!("{} {}", n, if signed { "int" } else { "uint" });
                arity = 1;
                let maxw = if signed { 128 } else { 127 };
                expect = if n < 0 || (n as u128) > remaining as u128 || n > maxw {
                    Expect::Fail
                } else if n == 0 {
                    Expect::Either(Box::new(if signed { Expect::Int(0, 0, cur.rel) } else { Expect::Uint(0, 0, cur.rel) }))
                } else {
                    let n = n as usize;
                    let f = &rest[..n];
                    if signed {
                        Expect::Int(ref_decode_int(f, big), n, cur.rel + n)
                    } else {
                        Expect::Uint(ref_decode_uint(f, big), n, cur.rel + n)
                    }
                };
            }
            4 => {
                // floats
                let w = [32usize, 64][ch.below(2)];
                let form = ch.below(4);
                let obig = match form {
                    1 => false,
                    2 => true,
                    _ => big,
                };
                let mut bad_width = false;
                src = match form {
                    0 => format!("f{}", w),
                    1 => format!("f{}le", w),
                    2 => format!("f{}be", w),
                    _ => {
                        if ch.chance(1, 4) {
                            bad_width = true;
                            format!("{} float", [0usize, 8, 16, 31, 33, 63, 65, 128][ch.below(8)])
                        } else {
                            format!("{} float", w)
                        }
                    }
                };
                arity = if form == 3 { 1 } else { 0 };
                expect = if bad_width || w > remaining {
                    Expect::Fail
                } else {
                    let f = &rest[..w];
                    let mut bytes: Vec<u8> = f.chunks(8).map(|g| g.iter().fold(0u8, |a, b| (a << 1) | *b as u8)).collect();
                    if !obig {
                        bytes.reverse();
                    }
                    let v = if w == 32 {
                        f32::from_be_bytes([bytes[0], bytes[1], bytes[2], bytes[3]]) as f64
                    } else {
                        f64::from_be_bytes([bytes[0], bytes[1], bytes[2], bytes[3], bytes[4], bytes[5], bytes[6], bytes[7]])
                    };
                    Expect::F(v, w, cur.rel + w)
                };
            }
            5 => {
                // magic
                let n = match ch.weighted(&[6, 2, 1]) {
                    0 => ch.below(remaining.min(40) + 1),
                    1 => remaining + 1 + ch.below(8),
                    _ => ch.below(remaining + 1),
                };
                let mut pat: Vec<bool> = (0..n).map(|i| if i < remaining { rest[i] } else { ch.bool() }).collect();
                let mutate = n > 0 && ch.chance(1, 3);
                if mutate {
                    let i = ch.below(n);
                    pat[i] = !pat[i];
                }
                src = format!("{} magic", bits_lit(&pat));
                arity = 1;
                expect = if n <= remaining && pat[..] == rest[..n] { Expect::Bits(pat.clone(), cur.rel + n) } else { Expect::Fail };
            }
            6 => {
                // seek (absolute position)
                let p: i128 = match ch.weighted(&[8, 2, 2]) {
                    0 => (istart + ch.below(len + 1)) as i128,
                    1 => {
                        if ch.bool() {
                            (iend + 1 + ch.below(9)) as i128
                        } else {
                            istart as i128 - 1 - ch.below(9) as i128
                        }
                    }
                    _ => {
                        let k = ch.below(len + 1) + istart;
                        boundary(ch, k)
                    }
                };
                src = format!("{} seek", p);
                arity = 1;
                expect = if p >= istart as i128 && p <= iend as i128 { Expect::Moved((p - istart as i128) as usize) } else { Expect::Fail };
            }
            7 => {
                // find
                let abs = istart + cur.rel;
                let pat: Vec<bool> = match ch.weighted(&[5, 2, 2]) {
                    0 if remaining >= 8 => {
                        // take a byte-granular piece from the remainder (at a byte position relative to the cursor)
                        let nbytes = remaining / 8;
                        let at = ch.below(nbytes);
                        let l = 1 + ch.below((nbytes - at).min(3));
                        rest[at * 8..(at + l) * 8].to_vec()
                    }
                    1 => (0..(1 + ch.below(20))).map(|_| ch.bool()).collect(),
                    _ => (0..8 * (1 + ch.below(2))).map(|_| ch.bool()).collect(),
                };
                src = format!("{} find", bits_lit(&pat));
                arity = 1;
                expect = if pat.len() % 8 != 0 || abs % 8 != 0 || remaining % 8 != 0 {
                    Expect::Fail
                } else {
                    let hay: Vec<&[bool]> = rest.chunks(8).collect();
                    let nd: Vec<&[bool]> = pat.chunks(8).collect();
                    let mut found = None;
                    if nd.len() <= hay.len() {
                        for i in 0..=(hay.len() - nd.len()) {
                            if hay[i..i + nd.len()] == nd[..] {
                                found = Some((abs + 8 * i) as i128);
                                break;
                            }
                        }
                    }
                    if nd.is_empty() {
                        found = Some(abs as i128);
                    }
                    Expect::Position(found)
                };
            }
            8 => {
                src = "remain".to_string();
                arity = 0;
                expect = Expect::Uint(remaining as u128, usize::MAX, cur.rel);
            }
            9 => {
                // nulbytestr / cstr
                let c = ch.bool();
                src = if c { "cstr".into() } else { "nulbytestr".into() };
                arity = 0;
                expect = if remaining % 8 != 0 {
                    Expect::Fail
                } else {
                    let mut n = 0;
                    let mut text = String::new();
                    for g in rest.chunks(8) {
                        n += 8;
                        let b = g.iter().fold(0u8, |a, x| (a << 1) | *x as u8);
                        if b == 0 {
                            break;
                        }
                        text.push(b as char);
                    }
                    if c {
                        Expect::Text(text, cur.rel + n)
                    } else {
                        Expect::Bits(rest[..n].to_vec(), cur.rel + n)
                    }
                };
            }
            10 => {
                // open a literal
                let cap = if ch.chance(1, 5) { 120 } else { 40 };
                let n = ch.below(cap);
                let bits: Vec<bool> = (0..n).map(|_| ch.bool()).collect();
                src = format!("{} open-bitstr", bits_lit(&bits));
                arity = 1;
                model.push(Lvl { bits, rel: 0 });
                expect = Expect::Structural;
                nested = nested || model.len() > 2;
            }
            11 => {
                // open a slice read from the current input: "n bits" then "open-bitstr"
                let n = ch.below(remaining + 1);
                let r = guard(|| xs.eval(&format!("{} bits", n)));
                log.push(format!("{} bits   (to be opened)", n));
                match r {
                    Ok(Ok(())) => {}
                    other => {
                        out.fail("valid read rejected", format!("{:?}\n{}", other.map(|r| xs::render_res(&r)), log.join("\n")));
                        break;
                    }
                }
                let sl = rest[..n].to_vec();
                model.last_mut().unwrap().rel += n;
                if (istart + cur.rel) % 8 != 0 && n > 0 {
                    unaligned_read = true;
                }
                src = "open-bitstr".to_string();
                arity = 1;
                model.push(Lvl { bits: sl, rel: 0 });
                expect = Expect::Structural;
                nested = nested || model.len() > 2;
            }
            12 => {
                src = "close-bitstr".to_string();
                arity = 0;
                if model.len() > 1 {
                    model.pop();
                    expect = Expect::Structural;
                } else {
                    expect = Expect::Fail;
                }
            }
            _ => {
                big = ch.bool();
                src = if big { "big".into() } else { "little".into() };
                arity = 0;
                expect = Expect::Structural;
            }
        }
        // 1 op in 8: the data stack is full (stack limit = what it holds), so the value cannot be delivered: the read
        // fails like any other failing read - nothing consumed, nothing changed
        let full = matches!(kind, 0 | 1 | 2 | 3 | 4 | 5 | 7 | 8 | 9) && ch.chance(1, 8);
        let expect = if full { Expect::Fail } else { expect };
        if full {
            xs.set_stack_limit(Some(xs.data_depth())).unwrap();
            stack_full_reads += 1;
            log.push(format!("{}    (with the stack limit set to the {} items it holds)", src, xs.data_depth()));
        } else {
            log.push(src.clone());
        }
        // ---- run ---------------------------------------------------------
        let depth_before = xs.data_depth();
        let res = guard(|| xs.eval(&src));
        if full {
            xs.set_stack_limit(None).unwrap();
        }
        let res = match res {
            Ok(r) => r,
            Err(pm) => {
                out.fail(format!("panic: {}", pm), format!("history:\n{}", log.join("\n")));
                break;
            }
        };
        let word = src.split(' ').last().unwrap_or("").to_string();
        let word_class: String = word.chars().filter(|c| !c.is_ascii_digit()).collect();
        let mut fail = |out: &mut CaseOut, what: &str, detail: String| {
            out.fail(format!("{}: {}", word_class, what), format!("{}\nhistory:\n{}", detail, log.join("\n")));
        };
        // stack below operands intact
        let st = xs::stack(&xs);
        for (i, j) in junk.iter().enumerate() {
            if st.get(i).map(xs::render).as_deref() != Some(j.as_str()) {
                fail(&mut out, "the rest of the data stack changed", format!("stack now [{}]", xs::render_stack(&xs)));
            }
        }
        if out.fail.is_some() {
            break;
        }
        let now = model.last().unwrap().clone();
        let mut expect = expect;
        if let Expect::Either(inner) = expect {
            expect = if res.is_err() { Expect::Fail } else { *inner };
        }
        let (mut want_rel, mut want_bits) = (now.rel, now.bits.clone());
        match &expect {
            Expect::Fail => {
                if res.is_ok() {
                    fail(&mut out, "succeeded where the model says it must fail", format!("op `{}` with {} bits remaining; stack [{}]", src, remaining, xs::render_stack(&xs)));
                    break;
                }
                saw_fail = true;
                if xs.data_depth() > depth_before + arity || xs.data_depth() < njunk {
                    fail(&mut out, "failing op changed the stack depth", format!("depth {} -> {}", depth_before, xs.data_depth()));
                    break;
                }
                // drop leftover operands so that the next op starts clean
                while xs.data_depth() > njunk {
                    let _ = xs.pop_data();
                }
                want_rel = cur.rel;
                want_bits = cur.bits.clone();
                if kind == 12 {
                    // failed close: model unchanged
                }
            }
            Expect::Structural => {
                if let Err(e) = &res {
                    fail(&mut out, "failed where the model says it succeeds", xs::render_err(e));
                    break;
                }
                if xs.data_depth() != njunk {
                    fail(&mut out, "left something on the stack", xs::render_stack(&xs));
                    break;
                }
            }
            other => {
                if let Err(e) = &res {
                    fail(&mut out, "failed where the model says it succeeds", format!("op `{}` with {} bits remaining: {}", src, remaining, xs::render_err(e)));
                    break;
                }
                if saw_fail && !matches!(other, Expect::Position(_)) && kind != 8 {
                    fail_then_read = true;
                }
                let pushed = xs.data_depth() as isize - njunk as isize;
                let top = xs.get_data(0).cloned();
                let mut bad: Option<String> = None;
                match other {
                    Expect::Bits(b, r) => {
                        want_rel = *r;
                        if (istart + cur.rel) % 8 != 0 && !b.is_empty() {
                            unaligned_read = true;
                        }
                        match top.as_ref().map(|c| c.value().clone()) {
                            Some(Cell::Bitstr(got)) if pushed == 1 => {
                                if bits_of(&got) != *b {
                                    bad = Some(format!("returned bits {} expected {}", show(&bits_of(&got)), show(b)));
                                }
                            }
                            _ => bad = Some(format!("expected one bit-string, stack [{}]", xs::render_stack(&xs))),
                        }
                    }
                    Expect::Uint(v, w, r) => {
                        want_rel = *r;
                        if *w != usize::MAX && (istart + cur.rel) % 8 != 0 && *w > 0 {
                            unaligned_read = true;
                        }
                        match top.as_ref().map(|c| c.value().clone()) {
                            Some(Cell::Int(got)) if pushed == 1 => {
                                if got < 0 || got as u128 != *v {
                                    bad = Some(format!("returned {} expected {}", got, v));
                                }
                            }
                            _ => bad = Some(format!("expected one integer, stack [{}]", xs::render_stack(&xs))),
                        }
                    }
                    Expect::Int(v, w, r) => {
                        want_rel = *r;
                        if (istart + cur.rel) % 8 != 0 && *w > 0 {
                            unaligned_read = true;
                        }
                        match top.as_ref().map(|c| c.value().clone()) {
                            Some(Cell::Int(got)) if pushed == 1 => {
                                if got != *v {
                                    bad = Some(format!("returned {} expected {}", got, v));
                                }
                            }
                            _ => bad = Some(format!("expected one integer, stack [{}]", xs::render_stack(&xs))),
                        }
                    }
                    Expect::F(v, _w, r) => {
                        want_rel = *r;
                        if (istart + cur.rel) % 8 != 0 {
                            unaligned_read = true;
                        }
                        match top.as_ref().map(|c| c.value().clone()) {
                            Some(Cell::Real(got)) if pushed == 1 => {
                                if !(got.to_bits() == v.to_bits() || (got.is_nan() && v.is_nan())) {
                                    bad = Some(format!("returned {:?} expected {:?}", got, v));
                                }
                            }
                            _ => bad = Some(format!("expected one real, stack [{}]", xs::render_stack(&xs))),
                        }
                    }
                    Expect::Text(t, r) => {
                        want_rel = *r;
                        match top.as_ref().map(|c| c.value().clone()) {
                            Some(Cell::Str(got)) if pushed == 1 => {
                                if got.as_str() != t.as_str() {
                                    bad = Some(format!("returned {:?} expected {:?}", got.as_str(), t));
                                }
                            }
                            _ => bad = Some(format!("expected one string, stack [{}]", xs::render_stack(&xs))),
                        }
                    }
                    Expect::Position(p) => {
                        let got = top.as_ref().map(|c| c.value().clone());
                        let ok = pushed == 1
                            && match (p, &got) {
                                (None, Some(Cell::Nil)) => true,
                                (Some(a), Some(Cell::Int(b))) => a == b,
                                _ => false,
                            };
                        if !ok {
                            bad = Some(format!("find returned [{}] expected {:?}", xs::render_stack(&xs), p));
                        }
                    }
                    Expect::Moved(r) => {
                        want_rel = *r;
                        if pushed != 0 {
                            bad = Some(format!("left something on the stack [{}]", xs::render_stack(&xs)));
                        }
                    }
                    _ => {}
                }
                if let Some(b) = bad {
                    fail(&mut out, "wrong result", b);
                    break;
                }
                while xs.data_depth() > njunk {
                    let _ = xs.pop_data();
                }
                model.last_mut().unwrap().rel = want_rel;
            }
        }
        let _ = ibits;
        let _ = before_off;
        // ---- read back the cursor -----------------------------------------
        let (gbits, gstart, gend) = match obs_input(&xs) {
            Some(x) => x,
            None => {
                fail(&mut out, "input variable is not a bit-string any more", String::new());
                break;
            }
        };
        if gbits != want_bits {
            fail(&mut out, "input changed / not restored", format!("input now {} (start {}), model {}", show(&gbits), gstart, show(&want_bits)));
            break;
        }
        let off = obs_offset(&xs);
        match off {
            Some(o) if o >= gstart as i128 && o <= gend as i128 => {
                if (o - gstart as i128) as usize != want_rel {
                    fail(&mut out, "offset is not where the model says", format!("offset {} start {} => relative {}, model {}", o, gstart, o - gstart as i128, want_rel));
                    break;
                }
            }
            other => {
                fail(&mut out, "offset outside the input", format!("offset {:?}, input range {}..{}", other, gstart, gend));
                break;
            }
        }
        // `remain` and `offset` words
        let r = guard(|| xs.eval("remain offset"));
        let (o2, r2) = (xs.pop_data().ok(), xs.pop_data().ok());
        let okr = matches!(r, Ok(Ok(())))
            && r2.as_ref().map(|c| c.value() == &Cell::Int((want_bits.len() - want_rel) as i128)).unwrap_or(false)
            && o2.as_ref().map(|c| Some(c.value().clone()) == off.map(Cell::Int)).unwrap_or(false);
        if !okr {
            fail(&mut out, "remain/offset words disagree with end minus offset", format!("remain {:?} offset {:?}, model remain {}", r2.map(|c| xs::render(&c)), o2.map(|c| xs::render(&c)), want_bits.len() - want_rel));
            break;
        }
    }
    out.nontrivial = fail_then_read || nested || unaligned_read;
    if fail_then_read {
        out.class("fail-then-read");
    }
    if stack_full_reads > 0 {
        out.class("read-refused-by-full-stack");
    }
    if nested {
        out.class("nested-open");
    }
    if unaligned_read {
        out.class("unaligned-read");
    }
    if saw_fail {
        out.class("has-failing-op");
    }
    out.hash = hash_of(&log);
    if ctx.want_render || out.fail.is_some() {
        out.render = Some(log.join(" ; "));
    }
    let _ = bitstr_from_bits;
    out
}
