// C17 — every error points at the token that caused it.
use crate::common::*;
use crate::xs;
use crate::PropDef;
use xeh::prelude::*;

pub const DEF: PropDef = PropDef {
    id: "C17",
    rule: "1-4 sources evaluated on one interpreter (eval, compile+run, or - 1 run-time case in 5 - compile and next() steps where an earlier failing `drop` is repaired by the host through push_data and stepping goes on); the last one contains exactly one culprit token at a generated position: build-time (unknown word incl. non-ASCII names, malformed number / string escape / bit-string literal, unmatched closer, `! unknown`) or run-time (/ by zero, + on a string, drop on empty, assert, error, nth out of range, if on a non-flag, do with a bad range) \
at top level, inside a definition called through 1-4 levels (possibly defined in an earlier source), inside do/begin loops, case arms, meta blocks (before/after other meta blocks), text injected by ~), and (1 case in 8) a file pulled in by include / require. Filler around it: stack-neutral statements, line and block comments, strings with multi-byte characters and raw newlines, LF / CRLF line ends, tabs. \
Oracle: an independent scanner computes from the source text and the culprit's byte span the line (LF count), column (characters since the last line break), and line text; last_err_location() must name the right source (`<buffer#k>` with k counted by the harness, and the token's parent text), its token range must be the culprit span, line/col/whole_line must equal the scanner's, and pretty_error() must contain the name:line:col header and a caret under the column. \
Non-trivial = culprit not on line 1, or preceded on its line by a multi-byte character or tab, or at call depth >= 1, or after a meta block; distinct = hash of all sources",
    assumptions: &[
        "for a malformed literal the quoted token must start at the literal's first character and stay inside it (how much of the literal the lexer had consumed is not specified)",
        "end-of-input errors (structure left open) are not generated: the statement names no unambiguous culprit for them",
        "lone CR line ends are not generated (the quantifier lists LF and CRLF)",
    ],
    max_len: 400,
    quick_cases: 150_000,
    thorough_cases: 2_000_000,
    case,
    systematic: None,
    both_profiles_quick: false,
    max_shrink_iters: 6000,
    exhaustive_note: None,
};

struct Builder {
    text: String,
    uid: usize,
}

const SEPS: [&str; 7] = [" ", " ", "\n", "\r\n", "\t", "  ", "\n\n"];
const FILLERS: [&str; 12] = [
    "1 drop",
    "\"h\u{e9}llo w\u{f6}rld\" drop",
    "\\ a comment to the end of the line\n",
    "\\( block\n comment \\)",
    "[ 1 2 ] drop",
    "\"two\nlines\" drop",
    "\"\u{65e5}\u{672c}\" drop",
    "2 3 + drop",
    "#( 1 2 + #) drop",
    "\\ \u{e9}\u{e9}\u{e9} non-ascii comment\r\n",
    "true if 1 drop then",
    "|ff 0| drop",
];

impl Builder {
    fn sep(&mut self, ch: &mut Choices) {
        let s = SEPS[ch.below(SEPS.len())];
        self.text.push_str(s);
    }
    fn filler(&mut self, ch: &mut Choices, max: usize) {
        let n = ch.below(max + 1);
        for _ in 0..n {
            match ch.weighted(&[10, 2]) {
                0 => {
                    let f = FILLERS[ch.below(FILLERS.len())];
                    self.text.push_str(f);
                }
                _ => {
                    self.uid += 1;
                    let s = format!(": fill{} {} ;", self.uid, ["1 drop", "\"\u{e9}\" drop", ""][ch.below(3)]);
                    self.text.push_str(&s);
                }
            }
            self.sep(ch);
        }
    }
    /// appends a token and returns its byte span
    fn token(&mut self, t: &str) -> (usize, usize) {
        let s = self.text.len();
        self.text.push_str(t);
        (s, self.text.len())
    }
    fn raw(&mut self, t: &str) {
        self.text.push_str(t);
    }
}

#[derive(Clone, Copy, PartialEq, Debug)]
enum Exact {
    /// quoted token = the culprit span
    Span,
    /// quoted token starts at the culprit start and ends inside the culprit
    Prefix,
}

struct Culprit {
    /// statements before the culprit token that set up its operands
    pre: &'static str,
    token: &'static str,
    /// text that completes the structure the culprit opens
    post: &'static str,
    exact: Exact,
    build_time: bool,
    name: &'static str,
}

const BUILD: [Culprit; 14] = [
    Culprit { pre: "", token: "nosuchword", post: "", exact: Exact::Span, build_time: true, name: "unknown-word" },
    Culprit { pre: "", token: "gr\u{f6}\u{df}e9", post: "", exact: Exact::Span, build_time: true, name: "unknown-word-nonascii" },
    Culprit { pre: "", token: "2d", post: "", exact: Exact::Prefix, build_time: true, name: "bad-number" },
    Culprit { pre: "", token: "0x", post: "", exact: Exact::Prefix, build_time: true, name: "bad-number" },
    Culprit { pre: "", token: "12_x", post: "", exact: Exact::Prefix, build_time: true, name: "bad-number" },
    Culprit { pre: "", token: "\"a\\qb\"", post: "", exact: Exact::Prefix, build_time: true, name: "bad-escape" },
    Culprit { pre: "", token: "|1g|", post: "", exact: Exact::Prefix, build_time: true, name: "bad-bitstr" },
    Culprit { pre: "", token: "then", post: "", exact: Exact::Span, build_time: true, name: "unmatched-closer" },
    Culprit { pre: "", token: "]", post: "", exact: Exact::Span, build_time: true, name: "unmatched-closer" },
    Culprit { pre: "", token: "loop", post: "", exact: Exact::Span, build_time: true, name: "unmatched-closer" },
    Culprit { pre: "", token: "endcase", post: "", exact: Exact::Span, build_time: true, name: "unmatched-closer" },
    Culprit { pre: "", token: "until", post: "", exact: Exact::Span, build_time: true, name: "unmatched-closer" },
    Culprit { pre: "", token: "#)", post: "", exact: Exact::Span, build_time: true, name: "unmatched-closer" },
    Culprit { pre: "!", token: "nosuchvar", post: "", exact: Exact::Span, build_time: true, name: "store-to-unknown" },
];

const RUN: [Culprit; 10] = [
    Culprit { pre: "1 0", token: "/", post: "", exact: Exact::Span, build_time: false, name: "div-by-zero" },
    Culprit { pre: "\"s\u{e9}\" 1", token: "+", post: "", exact: Exact::Span, build_time: false, name: "type-error" },
    Culprit { pre: "", token: "drop", post: "", exact: Exact::Span, build_time: false, name: "underflow" },
    Culprit { pre: "false", token: "assert", post: "", exact: Exact::Span, build_time: false, name: "assert" },
    Culprit { pre: "7", token: "error", post: "", exact: Exact::Span, build_time: false, name: "user-error" },
    Culprit { pre: "[ 1 ] 5", token: "nth", post: "", exact: Exact::Span, build_time: false, name: "out-of-bounds" },
    Culprit { pre: "5", token: "if", post: "1 then", exact: Exact::Span, build_time: false, name: "if-on-non-flag" },
    Culprit { pre: "nil 0", token: "do", post: "loop", exact: Exact::Span, build_time: false, name: "do-bad-range" },
    Culprit { pre: "1 2", token: "assert-eq", post: "", exact: Exact::Span, build_time: false, name: "assert-eq" },
    Culprit { pre: "case 3", token: "of", post: "1 endof drop endcase", exact: Exact::Span, build_time: false, name: "of-missing-selector" },
];

/// independent scanner: (line, col, line text) of byte position `pos`
fn scan(text: &str, pos: usize) -> (usize, usize, String) {
    let before = &text[..pos];
    let line = before.matches('\n').count();
    let line_start = before.rfind(|c| c == '\n' || c == '\r').map(|i| i + 1).unwrap_or(0);
    let col = text[line_start..pos].chars().count();
    let rest = &text[pos..];
    let line_end = rest.find(|c| c == '\n' || c == '\r').map(|i| pos + i).unwrap_or(text.len());
    (line, col, text[line_start..line_end].to_string())
}

pub fn case(ch: &mut Choices, ctx: &CaseCtx) -> CaseOut {
    let mut out = CaseOut::default();
    // 1 case in 8 puts the culprit into a file pulled in by include / require (needs the real words, not the stubs)
    let in_file = ch.chance(1, 8);
    let mut xs = if in_file {
        let mut x = Xstate::boot().expect("boot");
        x.intercept_stdout(true);
        x
    } else {
        xs::fresh()
    };
    xs.set_insn_limit(Some(100_000)).unwrap();
    let mut nsources = 0usize; // sources interned so far (buffers are numbered in order)
    let mut all_sources: Vec<String> = Vec::new();
    let mut b = Builder { text: String::new(), uid: 0 };
    // ---- earlier sources: succeed or fail, define helper words -----------------------
    let nprev = ch.below(4);
    let mut deferred_def: Option<(String, (usize, usize), usize, &'static Culprit)> = None;
    let run_time = ch.chance(3, 5);
    let cul: &'static Culprit = if run_time { &RUN[ch.below(RUN.len())] } else { &BUILD[ch.below(BUILD.len())] };
    // placement of a run-time culprit
    let depth = if run_time { ch.weighted(&[4, 3, 2, 1, 1]) } else { 0 };
    let in_earlier_source = !in_file && run_time && depth >= 1 && nprev > 0 && ch.chance(1, 3);
    for i in 0..nprev {
        let mut pb = Builder { text: String::new(), uid: 100 * (i + 1) };
        pb.filler(ch, 3);
        if in_earlier_source && i == nprev - 1 {
            // the definition chain lives in this earlier source
            let span = emit_chain(&mut pb, ch, cul, depth);
            pb.filler(ch, 2);
            deferred_def = Some((pb.text.clone(), span, nsources, cul));
        } else if ch.chance(1, 4) {
            // an earlier source that fails (its location must not leak into the later report)
            pb.raw(["1 0 /", "nosuch_earlier", "drop drop drop drop drop drop drop drop drop"][ch.below(3)]);
        }
        let r = guard(|| xs.eval(&pb.text));
        if r.is_err() {
            out.fail("panic in an earlier source", pb.text.clone());
            return out;
        }
        // failing earlier sources may leave values behind; clear the stack for determinism
        while xs.data_depth() > 0 {
            let _ = xs.pop_data();
        }
        // a source rejected while it was compiled is forgotten entirely: it does not keep its buffer number
        if !pb.text.contains("nosuch_earlier") {
            nsources += 1;
        }
        all_sources.push(pb.text);
    }
    // ---- the failing source ------------------------------------------------------------
    b.filler(ch, 4);
    let mut after_meta = b.text.contains("#(");
    let mut expect_text: String;
    let mut expect_span: (usize, usize);
    let mut expect_buffer: usize;
    let wrap = if run_time && depth == 0 { ch.weighted(&[4, 2, 2, 2, 2, 2]) } else { 0 };
    let mut injected = false;
    let mut expect_name: Option<String> = None;
    if in_file {
        // the culprit lives in an included file: <filler> [definition chain | culprit at top level] <filler>
        thread_local! { static NFILE: std::cell::Cell<usize> = std::cell::Cell::new(0); }
        let k = NFILE.with(|c| {
            c.set(c.get() + 1);
            c.get()
        });
        let dir = format!("{}/.run/c17-{}", verif_root(), std::process::id());
        let _ = std::fs::create_dir_all(&dir);
        let path = format!("{}/inc{}.xeh", dir, k % 64);
        let mut fb = Builder { text: String::new(), uid: 5000 };
        fb.filler(ch, 3);
        let span;
        if run_time && depth >= 1 {
            span = emit_chain(&mut fb, ch, cul, depth);
        } else {
            if !cul.pre.is_empty() {
                fb.raw(cul.pre);
                fb.sep(ch);
            }
            span = fb.token(cul.token);
            fb.sep(ch);
            if !cul.post.is_empty() {
                fb.raw(cul.post);
                fb.sep(ch);
            }
        }
        fb.filler(ch, 2);
        let _ = std::fs::write(&path, &fb.text);
        b.raw(&format!("{} {}", ["include", "require"][ch.below(2)], xs::str_lit(&path)));
        b.sep(ch);
        if run_time && depth >= 1 {
            b.raw(&format!("chain{}_{}", depth, 0));
            b.sep(ch);
        }
        b.filler(ch, 2);
        expect_text = fb.text.clone();
        expect_span = span;
        expect_buffer = 0;
        expect_name = Some(path);
    } else if let Some((text, span, idx, _)) = &deferred_def {
        // call the chain defined earlier
        b.raw(&format!("chain{}_{}", depth, 0));
        expect_text = text.clone();
        expect_span = *span;
        expect_buffer = *idx;
        b.sep(ch);
        b.filler(ch, 2);
    } else if run_time && depth >= 1 {
        let span = emit_chain(&mut b, ch, cul, depth);
        b.sep(ch);
        b.raw(&format!("chain{}_{}", depth, 0));
        b.sep(ch);
        b.filler(ch, 2);
        expect_text = String::new();
        expect_span = span;
        expect_buffer = nsources;
    } else {
        // top level, possibly wrapped in a loop / case arm / meta block / injected text
        let (open, close): (&str, &str) = match wrap {
            1 => ("3 0 do", "loop"),
            2 => ("begin", "true until"),
            3 => ("2 case 1 of 10 endof 2 of", "endof drop endcase"),
            4 => ("#(", "#)"),
            _ => ("", ""),
        };
        if wrap == 5 {
            // text injected by ~) : the culprit lives in the injected buffer
            let head = format!("{} ", cul.pre);
            let head = head.trim_start().to_string();
            let inj = format!("{}{} {}", head, cul.token, cul.post).trim_end().to_string();
            b.raw(&format!("#( {} ~)", xs::str_lit(&inj)));
            b.sep(ch);
            b.filler(ch, 1);
            injected = true;
            expect_text = inj.clone();
            expect_span = (head.len(), head.len() + cul.token.len());
            expect_buffer = nsources + 1;
        } else {
            if !open.is_empty() {
                b.raw(open);
                b.sep(ch);
            }
            if wrap == 4 {
                after_meta = true;
            }
            // a tab or a multi-byte string before the culprit on the same line, sometimes
            match ch.below(4) {
                0 => b.raw("\"\u{e9}\u{e9}\" drop\t"),
                1 => b.raw("\t"),
                _ => {}
            }
            if !cul.pre.is_empty() {
                b.raw(cul.pre);
                b.raw([" ", "\t", "  "][ch.below(3)]);
            }
            let span = b.token(cul.token);
            // trailing text after the culprit
            b.sep(ch);
            if !cul.post.is_empty() {
                b.raw(cul.post);
                b.sep(ch);
            }
            if !close.is_empty() {
                b.raw(close);
                b.sep(ch);
            }
            b.filler(ch, 2);
            expect_text = String::new();
            expect_span = span;
            expect_buffer = nsources;
        }
    }
    let mut src = b.text.clone();
    // 1 run-time case in 5 is driven like a debugger session with an earlier failure in the same program: the source
    // starts with a `drop` on the empty stack; the host steps with next(), repairs the stack through the API when
    // that step fails, and keeps stepping - the report after the second failure must describe the second failure
    let stepped = run_time && !in_file && ch.chance(1, 5);
    if stepped {
        let in_this_source = expect_text.is_empty();
        src = format!("drop\n{}", src);
        if in_this_source {
            expect_span = (expect_span.0 + 5, expect_span.1 + 5);
        }
    }
    if expect_text.is_empty() {
        expect_text = src.clone();
    }
    all_sources.push(src.clone());
    let style_compile = stepped || ch.bool();
    let mut repaired = false;
    let res = guard(|| {
        if stepped {
            xs.compile(&src)?;
            loop {
                if !xs.is_running() {
                    break OK;
                }
                match xs.next() {
                    Ok(()) => {}
                    Err(e) => {
                        let at_decoy = xs.last_err_location().map(|l| l.token.range() == (0..4) && l.token.parent().as_str() == src.as_str()).unwrap_or(false);
                        if !repaired && at_decoy {
                            repaired = true;
                            xs.push_data(Cell::Int(0))?;
                        } else {
                            break Err(e);
                        }
                    }
                }
            }
        } else if style_compile {
            match xs.compile(&src) {
                Ok(()) => xs.run(),
                Err(e) => Err(e),
            }
        } else {
            xs.eval(&src)
        }
    });
    if stepped {
        out.class(if repaired { "stepped-after-a-repaired-earlier-failure" } else { "stepped" });
    }
    let render = format!(
        "{}\nfailing source ({}): {}\nculprit: {:?} ({}) expected at {:?} of buffer#{}",
        all_sources[..all_sources.len() - 1].iter().enumerate().map(|(i, s)| format!("source #{}: {:?}", i, s)).collect::<Vec<_>>().join("\n"),
        if stepped { "compile, next() steps, first failure repaired with push_data" } else if style_compile { "compile+run" } else { "eval" },
        format!("{:?}", src),
        cul.token,
        cul.name,
        expect_span,
        expect_buffer
    );
    let placement = if in_file {
        "included-file"
    } else if injected {
        "injected"
    } else if deferred_def.is_some() {
        "called-word-in-earlier-source"
    } else if depth >= 1 {
        "called-word"
    } else {
        ["top-level", "do-loop", "begin-until", "case-arm", "meta-block", "injected"][wrap]
    };
    let fail = |out: &mut CaseOut, what: &str, detail: String| {
        out.fail(format!("{} @{}: {}", cul.name, placement, what), format!("{}\n{}", detail, render));
    };
    match res {
        Err(pm) => fail(&mut out, &format!("panic: {}", pm), String::new()),
        Ok(Ok(())) => fail(&mut out, "the source did not fail (generator error?)", String::new()),
        Ok(Err(e)) => {
            match xs.last_err_location() {
                None => fail(&mut out, "no location reported", xs::render_err(&e)),
                Some(loc) => {
                    let want_name = expect_name.clone().unwrap_or_else(|| format!("<buffer#{}>", expect_buffer));
                    let parent: String = loc.token.parent().to_string();
                    let r = loc.token.range();
                    let (wl, wc, wline) = scan(&expect_text, expect_span.0);
                    let span_ok = match cul.exact {
                        Exact::Span => (r.start, r.end) == expect_span,
                        Exact::Prefix => r.start == expect_span.0 && r.end <= expect_span.1 && r.end >= r.start,
                    };
                    if parent != expect_text {
                        fail(&mut out, "location is in the wrong source text", format!("reported source {:?} token {:?}", parent, loc.token.as_str()));
                    } else if !span_ok {
                        fail(&mut out, "quoted token is not the culprit", format!("reported {:?} at {:?}; error {}", loc.token.as_str(), r, xs::render_err(&e)));
                    } else if loc.filename.as_str() != want_name {
                        fail(&mut out, "wrong source name", format!("reported {} expected {}", loc.filename, want_name));
                    } else if loc.line != wl || loc.col != wc {
                        fail(&mut out, "wrong line/column", format!("reported {}:{} scanner {}:{}", loc.line, loc.col, wl, wc));
                    } else if loc.whole_line.as_str() != wline {
                        fail(&mut out, "wrong quoted line", format!("reported {:?} scanner {:?}", loc.whole_line.as_str(), wline));
                    } else {
                        let pe = xs.pretty_error().unwrap_or_default();
                        let header = format!("{}:{}:{}", want_name, wl + 1, wc + 1);
                        let caret = format!("\n{}^", "-".repeat(wc));
                        if !pe.contains(&header) || !pe.ends_with(&caret) || !pe.contains(&format!("\n{}\n", wline)) {
                            fail(&mut out, "pretty_error does not show header, line and caret", format!("{:?} expected header {:?} caret {:?}", pe, header, caret));
                        }
                    }
                    // classification
                    let line_prefix = &expect_text[..expect_span.0];
                    let this_line = &line_prefix[line_prefix.rfind(|c| c == '\n' || c == '\r').map(|i| i + 1).unwrap_or(0)..];
                    out.nontrivial = in_file || wl > 0 || this_line.chars().any(|c| c == '\t' || c.len_utf8() > 1) || depth >= 1 || after_meta || injected;
                }
            }
        }
    }
    out.class(cul.name);
    out.class(placement);
    if nprev > 0 {
        out.class("after-earlier-sources");
    }
    out.hash = hash_of(&all_sources);
    if ctx.want_render || out.fail.is_some() {
        out.render = Some(render);
    }
    out
}

/// `: chainD_D <culprit> ; : chainD_(D-1) chainD_D ; ...` ; returns the culprit span
fn emit_chain(b: &mut Builder, ch: &mut Choices, cul: &Culprit, depth: usize) -> (usize, usize) {
    b.raw(&format!(": chain{}_{}", depth, depth - 1));
    b.sep(ch);
    // some code before the culprit inside the innermost word
    if ch.bool() {
        b.raw("1 drop");
        b.sep(ch);
    }
    let looped = ch.chance(1, 3) && cul.token != "do" && cul.token != "of" && cul.token != "if";
    if looped {
        b.raw("2 0 do");
        b.sep(ch);
    }
    if ch.chance(1, 3) {
        b.raw("\"\u{e9}\" drop\t");
    }
    if !cul.pre.is_empty() {
        b.raw(cul.pre);
        b.sep(ch);
    }
    let span = b.token(cul.token);
    b.sep(ch);
    if !cul.post.is_empty() {
        b.raw(cul.post);
        b.sep(ch);
    }
    if looped {
        b.raw("loop");
        b.sep(ch);
    }
    b.raw(";");
    b.sep(ch);
    for d in (0..depth - 1).rev() {
        b.raw(&format!(": chain{}_{} chain{}_{} ;", depth, d, depth, d + 1));
        b.sep(ch);
    }
    span
}
