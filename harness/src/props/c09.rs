// C09 — arithmetic, comparison and bitwise words follow exact integer / IEEE semantics.
use crate::common::*;
use crate::xs;
use crate::PropDef;
use xeh::prelude::*;

pub const DEF: PropDef = PropDef {
    id: "C09",
    rule: "systematic grid: i128 boundary set (0, +-1, +-2, +-2^k, +-2^k+-1, MIN, MAX; k in {0,1,2,7,8,31,32,62,63,64,65,126} quick, all k thorough) x itself for every binary integer word, \
every unary word on the set, shift counts 0..127, f64 special set x itself for the real words, and every operand TYPE combination (int, real, nil, flag, str, bitstr, vector, map) for the error clause; \
random part: random i128 / f64 operands. Oracle: reference built on checked / unsigned-magnitude / 256-bit arithmetic (never the wrapping ops or float casts the implementation uses): exact result when representable, \
{wrapped value, overflow error} when not, division errors for zero divisors, type error whose payload is one of the supplied operands (a sentinel below them must never be reported). \
Non-trivial = result not representable, or an operand within 2 of a power of two / extreme, or a special float, or an error arm; distinct = hash of (word, operands)",
    assumptions: &[
        "comparisons / min / max / zero?-family on NaN are unspecified and not generated",
        "bsl beyond the representable range, real rem, and >int outside the i128 range are unspecified and not judged",
    ],
    max_len: 24,
    quick_cases: 120_000,
    thorough_cases: 5_000_000,
    case,
    systematic: Some(systematic),
    both_profiles_quick: true,
    max_shrink_iters: 2000,
    exhaustive_note: Some("boundary set x boundary set per binary word (sub-grid of exponents in the quick tier, all exponents in the thorough tier); type-combination grid complete in both tiers"),
};

const BIN_INT: &[&str] = &["+", "-", "*", "/", "rem", "min", "max", "<", "<=", ">", ">=", "==", "<>", "band", "bor", "bxor"];
const SHIFTS: &[&str] = &["bsl", "bsr"];
const UN_INT: &[&str] = &["neg", "abs", "bnot", "popcnt", ">real", ">int", "zero?", "positive?", "negative?"];
const BIN_REAL: &[&str] = &["+", "-", "*", "/", "min", "max", "<", "<=", ">", ">=", "==", "<>"];
const UN_REAL: &[&str] = &["neg", "abs", ">int", ">real", "round", "zero?", "positive?", "negative?"];
const ALL_WORDS: &[&str] = &[
    "+", "-", "*", "/", "rem", "min", "max", "<", "<=", ">", ">=", "==", "<>", "band", "bor", "bxor", "bsl", "bsr", "neg", "abs", "bnot", "popcnt", ">real", ">int", "round", "zero?", "positive?", "negative?",
];
const UNARY: &[&str] = &["neg", "abs", "bnot", "popcnt", ">real", ">int", "round", "zero?", "positive?", "negative?"];

fn int_set(thorough: bool) -> Vec<i128> {
    let ks: Vec<u32> = if thorough { (0..127).collect() } else { vec![0, 1, 2, 7, 8, 31, 32, 62, 63, 64, 65, 126] };
    let mut v = vec![0i128, 1, -1, 2, -2, 3, -3, 10, -10, i128::MAX, i128::MIN, i128::MAX - 1, i128::MIN + 1];
    for k in ks {
        let p = 1i128 << k;
        v.extend([p, -p, p - 1, p + 1, -p - 1, -p + 1]);
    }
    v.sort();
    v.dedup();
    v
}

fn real_set() -> Vec<f64> {
    let mut v = vec![
        0.0, -0.0, f64::from_bits(1), -f64::from_bits(1), f64::MIN_POSITIVE, -f64::MIN_POSITIVE, 1.0, -1.0, 0.5, -0.5, 1.5, -1.5, 2.5, -2.5, 0.49999999999999994, f64::MAX, -f64::MAX,
        f64::INFINITY, f64::NEG_INFINITY, f64::NAN, 9007199254740992.0, 9007199254740993.0, -9007199254740992.0, 4503599627370495.5, 4503599627370496.5, -4503599627370495.5, 1e300, 1e-300,
        3.0, 7.25, -7.25, 1.7014118346046923e38, -1.7014118346046923e38, 1.7014118346046921e38, 123456789.125,
    ];
    v.push(f64::from_bits(0x7ff8_0000_0000_1234));
    v
}

#[derive(Clone, Debug)]
enum Val {
    I(i128),
    R(f64),
    Other(usize), // index into OTHER
}

fn other_cell(i: usize) -> Cell {
    match i {
        0 => Cell::Nil,
        1 => Cell::Flag(true),
        2 => Cell::from("a"),
        3 => Cell::Bitstr(xeh::bitstr::Bitstr::from(vec![1u8])),
        4 => Cell::from(xeh::xeh_vec![1]),
        _ => Cell::Map(xeh::xeh_map![1 => 2]),
    }
}
const N_OTHER: usize = 6;

fn to_cell(v: &Val) -> Cell {
    match v {
        Val::I(i) => Cell::Int(*i),
        Val::R(r) => Cell::Real(*r),
        Val::Other(i) => other_cell(*i),
    }
}

#[derive(Debug, Clone, PartialEq)]
enum Exp {
    Int(i128),
    IntOrOverflow(i128), // wrapped value or overflow error
    Real(f64),           // bit-equal, any NaN for NaN
    RealNum(f64),        // numerically equal (sign of zero free)
    RealEither(f64, f64),
    Flag(bool),
    DivZero,
    TypeErr,
    Unspecified,
}

fn trunc_div(a: i128, b: i128) -> Option<i128> {
    // magnitude division, no signed wrapping ops
    let q = a.unsigned_abs() / b.unsigned_abs();
    let neg = (a < 0) != (b < 0);
    if neg {
        if q <= (1u128 << 127) { Some((q as i128).wrapping_neg()) } else { None }
    } else if q < (1u128 << 127) {
        Some(q as i128)
    } else {
        None
    }
}

fn rem_ref(a: i128, b: i128) -> i128 {
    let r = a.unsigned_abs() % b.unsigned_abs();
    // r < |b| <= 2^127, and r <= |a|; sign of the dividend
    if a < 0 { (r as i128).wrapping_neg() } else { r as i128 }
}

fn bitwise(a: i128, b: i128, f: fn(bool, bool) -> bool) -> i128 {
    let mut r: u128 = 0;
    for k in 0..128 {
        let x = (a as u128 >> k) & 1 == 1;
        let y = (b as u128 >> k) & 1 == 1;
        if f(x, y) {
            r |= 1 << k;
        }
    }
    r as i128
}

/// floor(a / 2^n) for n in 0..=127
fn asr_ref(a: i128, n: u32) -> i128 {
    if n == 0 {
        return a;
    }
    if a >= 0 {
        ((a as u128) / (1u128 << n)) as i128
    } else {
        // floor division of a negative number: -ceil(|a| / 2^n)
        let m = a.unsigned_abs();
        let d = 1u128 << n;
        let q = m / d + if m % d != 0 { 1 } else { 0 };
        (q as i128).wrapping_neg()
    }
}

fn shl_ref(a: i128, n: u32) -> Option<i128> {
    // a * 2^n if representable
    let mut r = a;
    for _ in 0..n {
        r = r.checked_mul(2)?;
    }
    Some(r)
}

/// exact truncation of a finite real with |x| < 2^127
fn real_trunc(x: f64) -> Option<i128> {
    if !x.is_finite() {
        return None;
    }
    let bits = x.to_bits();
    let neg = bits >> 63 == 1;
    let e = ((bits >> 52) & 0x7ff) as i32;
    let frac = bits & ((1u64 << 52) - 1);
    if e == 0 {
        return Some(0); // zero or subnormal
    }
    let mant = (frac | (1u64 << 52)) as u128;
    let sh = e - 1075;
    let mag: u128 = if sh >= 0 {
        if sh > 74 {
            return None; // >= 2^127
        }
        mant << sh
    } else if -sh >= 64 {
        0
    } else {
        mant >> (-sh)
    };
    if mag >= (1u128 << 127) {
        return None;
    }
    Some(if neg { -(mag as i128) } else { mag as i128 })
}

/// magnitude of a finite integral real as u128 (None if not integral or too big)
fn real_mag_exact(x: f64) -> Option<u128> {
    if !x.is_finite() {
        return None;
    }
    let bits = x.to_bits();
    let e = ((bits >> 52) & 0x7ff) as i32;
    let frac = bits & ((1u64 << 52) - 1);
    if e == 0 {
        return if frac == 0 { Some(0) } else { None };
    }
    let mant = (frac | (1u64 << 52)) as u128;
    let sh = e - 1075;
    if sh >= 0 {
        if sh > 75 {
            return None;
        }
        Some(mant << sh)
    } else {
        let s = (-sh) as u32;
        if s >= 64 || mant & ((1u128 << s) - 1) != 0 {
            None
        } else {
            Some(mant >> s)
        }
    }
}

/// is r the f64 nearest to the integer a (ties to even)?
fn is_nearest_real(a: i128, r: f64) -> bool {
    if !r.is_finite() || (r < 0.0) != (a < 0) && a != 0 && r != 0.0 {
        return false;
    }
    let am = a.unsigned_abs();
    let rm = match real_mag_exact(r.abs()) {
        Some(m) => m,
        None => return false,
    };
    let err = if am > rm { am - rm } else { rm - am };
    let up = f64::from_bits(r.abs().to_bits() + 1);
    let down = if r.abs() == 0.0 { None } else { Some(f64::from_bits(r.abs().to_bits() - 1)) };
    let mut ok = true;
    let dist = |x: f64| -> Option<(u128, u128)> {
        // distance |am - x| as (integer part *2, flag) – neighbours may be non-integral only when r < 2^53,
        // in which case a is exactly representable and err must be 0
        real_mag_exact(x).map(|m| (if am > m { am - m } else { m - am }, 0))
    };
    if err == 0 {
        return true;
    }
    if let Some((du, _)) = dist(up) {
        if du < err {
            ok = false;
        }
        if du == err && (r.to_bits() & 1) == 1 {
            ok = false;
        }
    } else {
        return false; // neighbours non-integral => a exactly representable => err must be 0
    }
    if let Some(d) = down {
        if let Some((dd, _)) = dist(d) {
            if dd < err {
                ok = false;
            }
            if dd == err && (r.to_bits() & 1) == 1 {
                ok = false;
            }
        } else {
            return false;
        }
    }
    ok
}

fn round_ref(x: f64) -> Exp {
    if x.is_nan() {
        return Exp::Real(f64::NAN);
    }
    if x.is_infinite() || x.abs() >= 4503599627370496.0 {
        return Exp::RealNum(x);
    }
    let t = real_trunc(x).unwrap() as f64; // |x| < 2^52: exact
    let frac = x - t; // exact
    let r = if frac.abs() >= 0.5 { t + if x < 0.0 { -1.0 } else { 1.0 } } else { t };
    Exp::RealNum(r)
}

fn cmp_flag(w: &str, o: std::cmp::Ordering) -> bool {
    use std::cmp::Ordering::*;
    match w {
        "<" => o == Less,
        "<=" => o != Greater,
        ">" => o == Greater,
        ">=" => o != Less,
        "==" => o == Equal,
        _ => o != Equal,
    }
}

fn expect_int_bin(w: &str, a: i128, b: i128) -> Exp {
    match w {
        "+" => a.checked_add(b).map(Exp::Int).unwrap_or_else(|| Exp::IntOrOverflow(wrap_add(a, b))),
        "-" => a.checked_sub(b).map(Exp::Int).unwrap_or_else(|| Exp::IntOrOverflow(wrap_add(a, wrap_neg(b)).wrapping_add(0))),
        "*" => a.checked_mul(b).map(Exp::Int).unwrap_or_else(|| Exp::IntOrOverflow(wrap_mul(a, b))),
        "/" => {
            if b == 0 {
                Exp::DivZero
            } else {
                match trunc_div(a, b) {
                    Some(q) => Exp::Int(q),
                    None => Exp::IntOrOverflow(i128::MIN),
                }
            }
        }
        "rem" => {
            if b == 0 {
                Exp::DivZero
            } else {
                Exp::Int(rem_ref(a, b))
            }
        }
        "min" => Exp::Int(if a <= b { a } else { b }),
        "max" => Exp::Int(if a >= b { a } else { b }),
        "<" | "<=" | ">" | ">=" | "==" | "<>" => Exp::Flag(cmp_flag(w, a.cmp(&b))),
        "band" => Exp::Int(bitwise(a, b, |x, y| x && y)),
        "bor" => Exp::Int(bitwise(a, b, |x, y| x || y)),
        "bxor" => Exp::Int(bitwise(a, b, |x, y| x != y)),
        "bsr" => {
            if (0..128).contains(&b) {
                Exp::Int(asr_ref(a, b as u32))
            } else {
                Exp::Unspecified
            }
        }
        "bsl" => {
            if (0..128).contains(&b) {
                shl_ref(a, b as u32).map(Exp::Int).unwrap_or(Exp::Unspecified)
            } else {
                Exp::Unspecified
            }
        }
        _ => Exp::Unspecified,
    }
}

// two's complement wrap computed on unsigned 128-bit magnitudes (mod 2^128)
fn wrap_add(a: i128, b: i128) -> i128 {
    let (r, _) = (a as u128).overflowing_add(b as u128);
    r as i128
}
fn wrap_neg(b: i128) -> i128 {
    (!(b as u128)).overflowing_add(1).0 as i128
}
fn wrap_mul(a: i128, b: i128) -> i128 {
    // schoolbook on 64-bit halves, low 128 bits
    let (a, b) = (a as u128, b as u128);
    let (a0, a1) = (a & 0xffff_ffff_ffff_ffff, a >> 64);
    let (b0, b1) = (b & 0xffff_ffff_ffff_ffff, b >> 64);
    let lo = a0 * b0;
    let mid = (a0 * b1 & 0xffff_ffff_ffff_ffff).overflowing_add(a1 * b0 & 0xffff_ffff_ffff_ffff).0 & 0xffff_ffff_ffff_ffff;
    lo.overflowing_add(mid << 64).0 as i128
}

fn expect_real_bin(w: &str, a: f64, b: f64) -> Exp {
    let nan = a.is_nan() || b.is_nan();
    match w {
        "+" => Exp::Real(a + b),
        "-" => Exp::Real(a - b),
        "*" => Exp::Real(a * b),
        "/" => {
            if b == 0.0 {
                Exp::DivZero
            } else {
                Exp::Real(a / b)
            }
        }
        "min" | "max" | "<" | "<=" | ">" | ">=" | "==" | "<>" if nan => Exp::Unspecified,
        "min" => {
            if a == b { Exp::RealEither(a, b) } else { Exp::Real(if a < b { a } else { b }) }
        }
        "max" => {
            if a == b { Exp::RealEither(a, b) } else { Exp::Real(if a > b { a } else { b }) }
        }
        "<" | "<=" | ">" | ">=" | "==" | "<>" => Exp::Flag(cmp_flag(w, a.partial_cmp(&b).unwrap())),
        _ => Exp::Unspecified,
    }
}

fn expect_unary(w: &str, v: &Val) -> Exp {
    match (w, v) {
        ("neg", Val::I(a)) => a.checked_neg().map(Exp::Int).unwrap_or(Exp::IntOrOverflow(i128::MIN)),
        ("abs", Val::I(a)) => {
            if *a == i128::MIN { Exp::IntOrOverflow(i128::MIN) } else { Exp::Int(if *a < 0 { -*a } else { *a }) }
        }
        ("bnot", Val::I(a)) => Exp::Int(bitwise(*a, 0, |x, _| !x)),
        ("popcnt", Val::I(a)) => Exp::Int((0..128).filter(|k| (*a as u128 >> k) & 1 == 1).count() as i128),
        (">real", Val::I(_)) => Exp::Unspecified, // judged by is_nearest_real
        (">int", Val::I(a)) => Exp::Int(*a),
        ("zero?", Val::I(a)) => Exp::Flag(*a == 0),
        ("positive?", Val::I(a)) => Exp::Flag(*a > 0),
        ("negative?", Val::I(a)) => Exp::Flag(*a < 0),
        ("round", Val::I(_)) => Exp::TypeErr,
        ("neg", Val::R(a)) => Exp::Real(-*a),
        ("abs", Val::R(a)) => Exp::Real(f64::from_bits(a.to_bits() & !(1u64 << 63))),
        (">int", Val::R(a)) => real_trunc(*a).map(Exp::Int).unwrap_or(Exp::Unspecified),
        (">real", Val::R(a)) => Exp::Real(*a),
        ("round", Val::R(a)) => round_ref(*a),
        ("zero?", Val::R(a)) if !a.is_nan() => Exp::Flag(*a == 0.0),
        ("positive?", Val::R(a)) if !a.is_nan() => Exp::Flag(*a > 0.0),
        ("negative?", Val::R(a)) if !a.is_nan() => Exp::Flag(*a < 0.0),
        ("bnot", Val::R(_)) | ("popcnt", Val::R(_)) => Exp::TypeErr,
        (_, Val::R(_)) => Exp::Unspecified,
        (_, Val::Other(_)) => Exp::TypeErr,
        _ => Exp::Unspecified,
    }
}

fn expectation(w: &str, ops: &[Val]) -> Exp {
    if UNARY.contains(&w) {
        return expect_unary(w, &ops[0]);
    }
    match (&ops[0], &ops[1]) {
        (Val::I(a), Val::I(b)) => expect_int_bin(w, *a, *b),
        (Val::R(a), Val::R(b)) => {
            if BIN_REAL.contains(&w) {
                expect_real_bin(w, *a, *b)
            } else if w == "rem" {
                Exp::Unspecified
            } else {
                Exp::TypeErr // bitwise words on reals
            }
        }
        _ => Exp::TypeErr, // mixed or non-numeric
    }
}

const SENTINEL: &str = "\u{a7}sentinel\u{a7}";

thread_local! {
    /// bit i set = operand i is pushed wrapped in a tag map (bit 2: a non-empty one)
    static TAGMASK: std::cell::Cell<u8> = std::cell::Cell::new(0);
}

fn run_word(w: &str, ops: &[Val], via_source: bool) -> (Result<Xresult, String>, Xstate) {
    let mut xs = xs::fresh();
    xs.set_insn_limit(Some(1000)).unwrap();
    xs.push_data(Cell::from(SENTINEL)).unwrap();
    let src = if via_source && ops.iter().all(|o| matches!(o, Val::I(_))) {
        let mut s = String::new();
        for o in ops {
            if let Val::I(i) = o {
                s.push_str(&format!("{} ", i));
            }
        }
        s.push_str(w);
        s
    } else {
        let mask = TAGMASK.with(|m| m.get());
        for (i, o) in ops.iter().enumerate() {
            let c = to_cell(o);
            // numbers read from binary input always carry tags: a tagged operand is the same operand
            let c = if mask & (1 << i) != 0 {
                let mut t = Xmap::new();
                if mask & 4 != 0 {
                    t.insert_mut(Cell::from("len"), Cell::Int(8));
                }
                c.with_tags(t)
            } else {
                c
            };
            xs.push_data(c).unwrap();
        }
        w.to_string()
    };
    let r = guard(|| xs.eval(&src));
    (r, xs)
}

fn bits_eq(a: f64, b: f64) -> bool {
    (a.is_nan() && b.is_nan()) || a.to_bits() == b.to_bits()
}

fn judge(w: &str, ops: &[Val], via_source: bool, out: &mut CaseOut) -> Exp {
    let exp = expectation(w, ops);
    let (r, xs) = run_word(w, ops, via_source);
    let desc = || format!("{:?} {}", ops, w);
    let r = match r {
        Err(p) => {
            out.fail(format!("{}: panic: {}", w, p), desc());
            return exp;
        }
        Ok(r) => r,
    };
    let stack = xs::stack(&xs);
    let top = stack.last().cloned();
    let sentinel_ok = stack.first().map(|c| c == &Cell::from(SENTINEL)).unwrap_or(false);
    let one_result = |out: &mut CaseOut| -> Option<Cell> {
        if r.is_err() {
            out.fail(format!("{}: unexpected error", w), format!("{} -> {:?}, expected {:?}", desc(), r, exp));
            return None;
        }
        if stack.len() != 2 || !sentinel_ok {
            out.fail(format!("{}: wrong stack effect", w), format!("{} leaves {}", desc(), xs::render_stack(&xs)));
            return None;
        }
        let t = top.clone().unwrap();
        // (an identity conversion hands its argument back, tags included: that is not a freshly computed result)
        let identity = (w == ">int" && matches!(ops[0], Val::I(_))) || (w == ">real" && matches!(ops[0], Val::R(_)));
        if t.tags().is_some() && !identity {
            out.fail(format!("{}: result carries tags", w), desc());
            return None;
        }
        Some(t.value().clone())
    };
    match &exp {
        Exp::Int(v) => {
            if let Some(t) = one_result(out) {
                if !matches!(t, Cell::Int(x) if x == *v) {
                    out.fail(format!("{}: wrong integer result", w), format!("{} = {:?}, expected {}", desc(), t, v));
                }
            }
        }
        Exp::IntOrOverflow(v) => match &r {
            Err(Xerr::IntegerOverflow) => {}
            _ => {
                if let Some(t) = one_result(out) {
                    if !matches!(t, Cell::Int(x) if x == *v) {
                        out.fail(format!("{}: unrepresentable result is neither wrapped nor an overflow error", w), format!("{} = {:?}, wrapped value {}", desc(), t, v));
                    }
                }
            }
        },
        Exp::Real(v) => {
            if let Some(t) = one_result(out) {
                if !matches!(t, Cell::Real(x) if bits_eq(x, *v)) {
                    out.fail(format!("{}: wrong real result", w), format!("{} = {:?}, expected {:?}", desc(), t, v));
                }
            }
        }
        Exp::RealNum(v) => {
            if let Some(t) = one_result(out) {
                if !matches!(t, Cell::Real(x) if x == *v || bits_eq(x, *v)) {
                    out.fail(format!("{}: wrong real result", w), format!("{} = {:?}, expected {:?}", desc(), t, v));
                }
            }
        }
        Exp::RealEither(a, b) => {
            if let Some(t) = one_result(out) {
                if !matches!(t, Cell::Real(x) if bits_eq(x, *a) || bits_eq(x, *b)) {
                    out.fail(format!("{}: wrong real result", w), format!("{} = {:?}", desc(), t));
                }
            }
        }
        Exp::Flag(v) => {
            if let Some(t) = one_result(out) {
                if !matches!(t, Cell::Flag(x) if x == *v) {
                    out.fail(format!("{}: wrong flag", w), format!("{} = {:?}, expected {}", desc(), t, v));
                }
            }
        }
        Exp::DivZero => {
            if !matches!(r, Err(Xerr::DivisionByZero)) {
                out.fail(format!("{}: zero divisor is not a division error", w), format!("{} -> {:?} stack {}", desc(), r, xs::render_stack(&xs)));
            }
        }
        Exp::TypeErr => match &r {
            Err(Xerr::TypeErrorMsg { val, .. }) | Err(Xerr::TypeNotSupported { val }) => {
                let is_operand = ops.iter().any(|o| {
                    let c = to_cell(o);
                    match (&c, val.value()) {
                        (Cell::Real(a), Cell::Real(b)) => bits_eq(*a, *b),
                        _ => &c == val && std::mem::discriminant(&c) == std::mem::discriminant(val.value()),
                    }
                });
                if !is_operand {
                    out.fail(format!("{}: type error reports a value that is not an operand", w), format!("{} -> payload {:?}", desc(), val));
                }
            }
            other => out.fail(format!("{}: wrong-typed operands do not give a type error", w), format!("{} -> {:?} stack {}", desc(), other, xs::render_stack(&xs))),
        },
        Exp::Unspecified => {
            if w == ">real" {
                if let Val::I(a) = &ops[0] {
                    if let Some(t) = one_result(out) {
                        match t {
                            Cell::Real(x) if is_nearest_real(*a, x) => {}
                            other => out.fail(">real: result is not the nearest double", format!("{} = {:?}", desc(), other)),
                        }
                    }
                }
            }
            // otherwise: only "no panic"; the sentinel must survive a successful run
            if r.is_ok() && !sentinel_ok {
                out.fail(format!("{}: consumed a value below its operands", w), desc());
            }
        }
    }
    exp
}

fn val_interesting(v: &Val) -> bool {
    match v {
        Val::I(a) => {
            let m = a.unsigned_abs();
            *a == i128::MIN || *a == i128::MAX || (m > 4 && ((m + 2).is_power_of_two() || (m + 1).is_power_of_two() || m.is_power_of_two() || (m - 1).is_power_of_two() || (m - 2).is_power_of_two()))
        }
        Val::R(r) => !r.is_finite() || *r == 0.0 || r.abs() < f64::MIN_POSITIVE || r.abs() >= 9007199254740992.0 || r.fract().abs() == 0.5,
        Val::Other(_) => true,
    }
}

fn finish(w: &str, ops: &[Val], exp: &Exp, out: &mut CaseOut, ctx: &CaseCtx, class: &'static str) {
    out.nontrivial = ops.iter().any(val_interesting) || matches!(exp, Exp::IntOrOverflow(_) | Exp::DivZero | Exp::TypeErr);
    out.class(class);
    match exp {
        Exp::IntOrOverflow(_) => out.class("unrepresentable"),
        Exp::DivZero => out.class("division-by-zero"),
        Exp::TypeErr => out.class("type-error-arm"),
        _ => {}
    }
    out.hash = hash_of(&(w, format!("{:?}", ops)));
    if ctx.want_render || out.fail.is_some() {
        out.render = Some(format!("{:?} {}  (expect {:?})", ops, w, exp));
    }
}

// direct-mode case layout: [kind, word, a, b]
//   kind 0: int grid (a,b index the int set)   kind 1: shift (a index, b count)   kind 2: real grid
//   kind 3: type grid (a,b index the class list: 0 int, 1 real, 2.. other)   kind 4: unary int   kind 5: unary real
fn sys_case(ch: &mut Choices, ctx: &CaseCtx) -> CaseOut {
    let mut out = CaseOut::default();
    let kind = ch.raw();
    let wi = ch.raw() as usize;
    let a = ch.raw() as usize;
    let b = ch.raw() as usize;
    let ints = int_set(ctx.tier_thorough);
    let reals = real_set();
    let cls = |i: usize| -> Val {
        match i {
            0 => Val::I(7),
            1 => Val::R(2.5),
            k => Val::Other(k - 2),
        }
    };
    let (w, ops): (&str, Vec<Val>) = match kind {
        0 => (BIN_INT[wi], vec![Val::I(ints[a]), Val::I(ints[b])]),
        1 => (SHIFTS[wi], vec![Val::I(ints[a]), Val::I(b as i128)]),
        2 => (BIN_REAL[wi], vec![Val::R(reals[a]), Val::R(reals[b])]),
        3 => {
            let w = ALL_WORDS[wi];
            if UNARY.contains(&w) { (w, vec![cls(a)]) } else { (w, vec![cls(a), cls(b)]) }
        }
        4 => (UN_INT[wi], vec![Val::I(ints[a])]),
        _ => (UN_REAL[wi], vec![Val::R(reals[a])]),
    };
    let exp = judge(w, &ops, false, &mut out);
    finish(w, &ops, &exp, &mut out, ctx, "grid");
    out
}

fn systematic(k: usize, n: usize, cfg: &EngineCfg, stats: &mut Stats) {
    let ints = int_set(cfg.thorough).len() as u32;
    let reals = real_set().len() as u32;
    let mut f = |ch: &mut Choices, ctx: &CaseCtx| sys_case(ch, ctx);
    let mut idx = 0usize;
    let mut go = |c: [u32; 4], stats: &mut Stats| -> bool {
        idx += 1;
        if idx % n != k {
            return true;
        }
        run_direct(&c, cfg, stats, idx % 50_021 == 0, &mut f)
    };
    for wi in 0..BIN_INT.len() as u32 {
        for a in 0..ints {
            for b in 0..ints {
                if !go([0, wi, a, b], stats) {
                    return;
                }
            }
        }
    }
    for wi in 0..SHIFTS.len() as u32 {
        for a in 0..ints {
            for b in 0..128 {
                if !go([1, wi, a, b], stats) {
                    return;
                }
            }
        }
    }
    for wi in 0..BIN_REAL.len() as u32 {
        for a in 0..reals {
            for b in 0..reals {
                if !go([2, wi, a, b], stats) {
                    return;
                }
            }
        }
    }
    let ncls = 2 + N_OTHER as u32;
    for wi in 0..ALL_WORDS.len() as u32 {
        for a in 0..ncls {
            for b in 0..ncls {
                if UNARY.contains(&ALL_WORDS[wi as usize]) && b > 0 {
                    continue;
                }
                if !go([3, wi, a, b], stats) {
                    return;
                }
            }
        }
    }
    for wi in 0..UN_INT.len() as u32 {
        for a in 0..ints {
            if !go([4, wi, a, 0], stats) {
                return;
            }
        }
    }
    for wi in 0..UN_REAL.len() as u32 {
        for a in 0..reals {
            if !go([5, wi, a, 0], stats) {
                return;
            }
        }
    }
    stats.exhaustive_part = true;
}

fn gen_int(ch: &mut Choices) -> i128 {
    match ch.weighted(&[3, 3, 3, 2]) {
        0 => ch.range(-20, 20) as i128,
        1 => {
            let s = int_set(true);
            s[ch.below(s.len())]
        }
        2 => {
            let bits = ch.below(128) as u32;
            let x = (ch.u128() >> (127 - bits)) as i128;
            if ch.bool() { x } else { x.wrapping_neg() }
        }
        _ => ch.u128() as i128,
    }
}

fn gen_real(ch: &mut Choices) -> f64 {
    match ch.weighted(&[3, 3, 2, 2, 2]) {
        0 => ch.range(-40, 40) as f64 * 0.25,
        1 => {
            let s = real_set();
            s[ch.below(s.len())]
        }
        2 => f64::from_bits(ch.u64()),
        3 => {
            // integers and halves around 2^52 / 2^53 / 2^63 / 2^127
            let e = *[52u32, 53, 63, 64, 126].get(ch.below(5)).unwrap();
            let base = 2f64.powi(e as i32);
            let d = ch.range(-4, 4) as f64 * 0.5;
            let v = base + d;
            if ch.bool() { v } else { -v }
        }
        _ => (ch.u64() as f64) * 2f64.powi(ch.range(-70, 70) as i32) * if ch.bool() { 1.0 } else { -1.0 },
    }
}

pub fn case(ch: &mut Choices, ctx: &CaseCtx) -> CaseOut {
    let mut out = CaseOut::default();
    let kind = ch.weighted(&[5, 2, 3, 2, 2, 1]);
    let via_source = ch.chance(1, 6);
    let (w, ops): (&str, Vec<Val>) = match kind {
        0 => (BIN_INT[ch.below(BIN_INT.len())], vec![Val::I(gen_int(ch)), Val::I(gen_int(ch))]),
        1 => (SHIFTS[ch.below(2)], vec![Val::I(gen_int(ch)), Val::I(ch.below(128) as i128)]),
        2 => (BIN_REAL[ch.below(BIN_REAL.len())], vec![Val::R(gen_real(ch)), Val::R(gen_real(ch))]),
        3 => (UN_INT[ch.below(UN_INT.len())], vec![Val::I(gen_int(ch))]),
        4 => (UN_REAL[ch.below(UN_REAL.len())], vec![Val::R(gen_real(ch))]),
        _ => {
            let w = ALL_WORDS[ch.below(ALL_WORDS.len())];
            let mut g = |ch: &mut Choices| match ch.below(3) {
                0 => Val::I(gen_int(ch)),
                1 => Val::R(gen_real(ch)),
                _ => Val::Other(ch.below(N_OTHER)),
            };
            if UNARY.contains(&w) { (w, vec![g(ch)]) } else { (w, vec![g(ch), g(ch)]) }
        }
    };
    // 1 case in 4: some operands carry tags (as every number read from binary input does)
    let mask = if !via_source && ch.chance(1, 4) { 1 + ch.below(7) as u8 } else { 0 };
    TAGMASK.with(|m| m.set(mask));
    let exp = judge(w, &ops, via_source, &mut out);
    TAGMASK.with(|m| m.set(0));
    if mask != 0 {
        out.class("tagged-operand");
    }
    finish(w, &ops, &exp, &mut out, ctx, "random");
    out
}
