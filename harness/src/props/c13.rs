// C13 — tags never change what a value does.
use crate::common::*;
use crate::val::{self, veq, V};
use crate::xs::{self, Kind};
use crate::PropDef;
use xeh::prelude::*;

pub const DEF: PropDef = PropDef {
    id: "C13",
    rule: "mode A (7/8 of the cases): a word from a typed table covering the native dictionary (minus the tag words, the stubbed external words and exit; the printing words that honour the formatting tag - print println .s concat join str>number - only with tag maps that do not contain #fmt) is run on a clone of one prepared interpreter (binary input open with the cursor inside it, output intercepted) \
once with plain arguments and once with the same arguments wrapped in generated tag maps (empty, scalar, tags on tags, with a #fmt entry; independently also on elements nested inside vector/map arguments). Arguments come from tuples that make the word succeed, and 1 case in 5 from arbitrary types so that the failing side is compared too. \
Oracle: both succeed or both fail with the same error kind; result stacks equal cell by cell under the language's equality; input/offset/output/byte-order variables and stdout equal; for the computing words no result carries tags at top level. \
mode B: a history of with-tags / insert-tag / remove-tag / get-tag / tags and store-into-a-variable-holding-the-same-value / fetch on a value against an association-list model: the value stays equal to the original, tags returns exactly the model map. \
Non-trivial = the plain run succeeds and a tag sits on an argument the word inspects (mode A), or >=2 tag operations (mode B); distinct = hash of word, arguments and tagging",
    assumptions: &[
        "tag-map keys are strings (keys of different types inside one tag map fall under C12's known finding)",
        "words that hand back an argument or an element (dup swap over rot nth get unbox drop depth collect-elements, identity >int/>real) and the binary read words (which attach len/big by design) are exempt from the no-tags clause only",
    ],
    max_len: 300,
    quick_cases: 240_000,
    thorough_cases: 3_000_000,
    case,
    systematic: None,
    both_profiles_quick: false,
    max_shrink_iters: 6000,
    exhaustive_note: None,
};

/// word: alternatives of argument tuples.  Codes are explained in `gen_arg`.
pub const TABLE: &[(&str, &str)] = &[
    ("insert", "M A Ks"),
    ("remove", "M Ks"),
    ("equal?", "A A"),
    ("nil?", "A"),
    ("length", "V|S|B"),
    ("nth", "Vn Ix"),
    ("get", "Vn I0|M Ks"),
    ("sort", "Vi|Vs|Vr"),
    ("reverse", "V"),
    ("push", "A V"),
    ("collect", "A A I2"),
    ("unbox", "V"),
    ("dup", "A"),
    ("drop", "A"),
    ("swap", "A A"),
    ("rot", "A A A"),
    ("over", "A A"),
    ("depth", "A"),
    ("assert", "Ft"),
    ("assert-eq", "I I|A A"),
    ("slice", "V Ix Ix|S Ix Ix"),
    ("error", "A"),
    ("+", "I I|R R"),
    ("-", "I I|R R"),
    ("*", "I I|R R"),
    ("/", "I I1|R R1"),
    ("rem", "I I1|I I"),
    ("neg", "I|R"),
    ("abs", "I|R"),
    ("<", "I I|R R"),
    ("<=", "I I|R R"),
    (">", "I I|R R"),
    (">=", "I I|R R"),
    ("==", "I I|R R"),
    ("<>", "I I|R R"),
    ("and", "F F"),
    ("or", "F F"),
    ("xor", "F F"),
    ("not", "F"),
    ("band", "I I"),
    ("bor", "I I"),
    ("bxor", "I I"),
    ("bnot", "I"),
    ("bsl", "I Ish"),
    ("bsr", "I Ish"),
    ("round", "R"),
    ("min", "I I|R R"),
    ("max", "I I|R R"),
    (">real", "I|R"),
    (">int", "R|I"),
    ("zero?", "I|R"),
    ("positive?", "I|R"),
    ("negative?", "I|R"),
    ("popcnt", "I"),
    ("nil?", "A"),
    ("bool?", "A"),
    ("int?", "A"),
    ("real?", "A"),
    ("str?", "A"),
    ("bitstr?", "A"),
    ("vec?", "A"),
    ("open-bitstr", "B"),
    ("close-bitstr", ""),
    (">b", "Ip"),
    (">kb", "Ip"),
    (">mb", "Ip"),
    ("seek", "Ipos"),
    ("remain", ""),
    ("find", "By"),
    ("dump", ""),
    ("dump-at", "Ipos"),
    ("bits", "Ip"),
    ("bytes", "I1s"),
    ("bitstr-len", "B"),
    ("bitstr-append", "B B"),
    ("bitstr-not", "B"),
    ("bitstr-and", "B B"),
    ("bitstr-or", "B B"),
    ("bitstr-xor", "B B"),
    ("hex>bitstr", "Sh"),
    ("bitstr>hex", "B"),
    (">bitstr", "Vb|S|B|Vbn"),
    ("bitstr>utf8", "Bascii"),
    ("big", ""),
    ("little", ""),
    ("magic", "Bp"),
    ("emit", "B"),
    ("u8", ""),
    ("i8", ""),
    ("u16le", ""),
    ("i16be", ""),
    ("u32", ""),
    ("f32", ""),
    ("f64le", ""),
    ("u8!", "I"),
    ("i8le!", "I"),
    ("u16!", "I"),
    ("i16be!", "I"),
    ("u32le!", "I"),
    ("i32!", "I"),
    ("u64be!", "I"),
    ("i64!", "I"),
    ("f32!", "R"),
    ("f32be!", "R"),
    ("f64!", "R"),
    ("f64le!", "R"),
    ("float", "I32"),
    ("float!", "R I32"),
    ("int", "Iw"),
    ("uint", "Iw"),
    ("int!", "I Iw"),
    ("uint!", "I Iw"),
    ("nulbytestr", ""),
    ("cstr", ""),
    ("base32", "By|S|Vb"),
    ("base32hex", "By|S|Vb"),
    ("base64", "By|S|Vb"),
    ("zero85", "By|S|Vb"),
    // values stored into the interpreter's own state variables, then a word that depends on them
    ("! big? u16", "I01"),
    ("! big? 258 u16!", "I01"),
    ("! big? 16 int", "I01"),
    ("! offset u8", "Ioff"),
    ("! offset remain", "Ioff"),
    ("! input u8 offset", "By2"),
    ("! output |ff| emit output", "B"),
    ("! output-length |ff 0| emit output-length", "Ip"),
    // printing words that honour the formatting tag: checked with tag maps that do not contain #fmt
    ("print", "A"),
    ("println", "A"),
    (".s", "A A"),
    ("concat", "Vs|V"),
    ("join", "Vs S|V S"),
    ("str>number", "Snum"),
    // foreach over a (possibly tagged) collection, with the loop index words
    ("foreach I loop", "V|M"),
    ("foreach I drop loop depth", "Vn"),
    ("foreach [ 5 6 ] foreach J I loop loop", "Vn|M"),
    ("foreach 2 0 do J K drop loop loop", "Vn"),
    ("base32>", "E0"),
    ("base32hex>", "E1"),
    ("base64>", "E2"),
    ("zero85>", "E3"),
];

/// words whose results are freshly computed: nothing on the result stack may carry tags
const COMPUTING: &[&str] = &[
    "insert", "remove", "equal?", "nil?", "length", "sort", "reverse", "push", "slice", "+", "-", "*", "/", "rem", "neg", "abs", "<", "<=", ">", ">=", "==", "<>", "and", "or", "xor", "not", "band", "bor", "bxor", "bnot", "bsl",
    "bsr", "round", "min", "max", "zero?", "positive?", "negative?", "popcnt", "bool?", "int?", "real?", "str?", "bitstr?", "vec?", ">b", ">kb", ">mb", "remain", "find", "bits", "bytes", "bitstr-len", "bitstr-append", "bitstr-not",
    "bitstr-and", "bitstr-or", "bitstr-xor", "hex>bitstr", "bitstr>hex", ">bitstr", "bitstr>utf8", "magic", "u8!", "i8le!", "u16!", "i16be!", "u32le!", "i32!", "u64be!", "i64!", "f32!", "f32be!", "f64!", "f64le!", "float!", "int!", "uint!",
    "nulbytestr", "cstr", "base32", "base32hex", "base64", "zero85", "base32>", "base32hex>", "base64>", "zero85>",
];

pub const INPUT: [u8; 16] = [0x41, 0x31, 0x00, 0x7f, 0x80, 0xff, 0x12, 0x34, 0x56, 0x78, 0x9a, 0x00, 0x40, 0x49, 0x0f, 0xdb];
const ENCODED: [&str; 4] = ["IEYQ====", "84OG====", "QTE=", "xK#0@"];

fn bytes_bits(b: &[u8]) -> Vec<bool> {
    let mut v = Vec::new();
    for x in b {
        for k in (0..8).rev() {
            v.push((x >> k) & 1 == 1);
        }
    }
    v
}

pub fn gen_arg(ch: &mut Choices, code: &str) -> V {
    match code {
        "A" => val::gen_value(ch, 2),
        "I" => V::Int(match ch.weighted(&[8, 2]) {
            0 => ch.range(-5, 9) as i128,
            _ => *[i128::MAX, i128::MIN, 255, -128, 1 << 64].get(ch.below(5)).unwrap(),
        }),
        "I0" => V::Int(0),
        "I01" => V::Int(ch.range(0, 1) as i128),
        "Ioff" => V::Int([8, 16, 24, 40][ch.below(4)]),
        "By2" => V::Bits(bytes_bits(&[0x12, 0x34, 0x56][..1 + ch.below(3)])),
        "I1" => V::Int([1, 2, -3, 7][ch.below(4)]),
        "I1s" => V::Int(ch.range(0, 2) as i128),
        "I2" => V::Int(2),
        "I32" => V::Int([32, 64][ch.below(2)]),
        "Ip" => V::Int(ch.range(0, 9) as i128),
        "Ipos" => V::Int([0, 8, 16, 24, 128][ch.below(5)]),
        "Ix" => V::Int(ch.range(-2, 2) as i128),
        "Iw" => V::Int([1, 3, 8, 9, 16, 24, 32][ch.below(7)]),
        "Ish" => V::Int(ch.range(0, 127) as i128),
        "R" => V::real([0.0, 1.5, -2.25, 100.5, -0.0, 3.0][ch.below(6)]),
        "R1" => V::real([1.5, -2.0, 0.5][ch.below(3)]),
        "S" => V::Str(val::STRS[ch.below(val::STRS.len())].to_string()),
        "Snum" => V::Str(["12", "-7", "1.5", "0", "zz", ""][ch.below(6)].to_string()),
        "Sh" => V::Str(["", "00", "ff 0a", "1 2 3", "dead beef"][ch.below(5)].to_string()),
        "F" => V::Flag(ch.bool()),
        "Ft" => V::Flag(true),
        "Ks" => V::Str(["a", "b", "k", "zz"][ch.below(4)].to_string()),
        "B" => {
            let n = ch.below(21);
            V::Bits((0..n).map(|_| ch.bool()).collect())
        }
        "By" => {
            let n = ch.below(5);
            V::Bits(bytes_bits(&ch.bytes(n)))
        }
        "Bascii" => V::Bits(bytes_bits(["", "a", "xeh", "h\u{e9}"][ch.below(4)].as_bytes())),
        "Bp" => {
            // a prefix of what remains of the input (cursor at bit 8), sometimes wrong
            let n = ch.below(25);
            let mut b = bytes_bits(&INPUT[1..5]);
            b.truncate(n);
            if n > 0 && ch.chance(1, 5) {
                b[0] = !b[0];
            }
            V::Bits(b)
        }
        "V" => {
            let n = ch.below(5);
            V::Vec((0..n).map(|_| val::gen_value(ch, 1)).collect())
        }
        "Vn" => {
            let n = 1 + ch.below(4);
            V::Vec((0..n).map(|_| val::gen_value(ch, 1)).collect())
        }
        "Vi" => {
            let n = ch.below(6);
            V::Vec((0..n).map(|_| V::Int(ch.range(-5, 5) as i128)).collect())
        }
        "Vr" => {
            let n = ch.below(6);
            V::Vec((0..n).map(|_| V::real([0.5, -1.5, 2.25, 1.0, 7.5][ch.below(5)])).collect())
        }
        "Vs" => {
            let n = ch.below(5);
            V::Vec((0..n).map(|_| V::Str(val::STRS[ch.below(val::STRS.len())].to_string())).collect())
        }
        "Vb" => {
            let n = ch.below(6);
            V::Vec((0..n).map(|_| V::Int(ch.below(256) as i128)).collect())
        }
        "Vbn" => V::Vec(vec![V::Int(65), V::Vec(vec![V::Int(66), V::Str("c".into())]), V::Bits(bytes_bits(&[0x7a]))]),
        "M" => {
            let n = ch.below(4);
            let mut m: Vec<(V, V)> = Vec::new();
            for _ in 0..n {
                let k = V::Str(["a", "b", "k", "zz"][ch.below(4)].to_string());
                let x = val::gen_value(ch, 1);
                val::map_insert(&mut m, k, x);
            }
            V::Map(m)
        }
        "E0" | "E1" | "E2" | "E3" => {
            let i = code[1..].parse::<usize>().unwrap();
            if ch.chance(1, 6) {
                V::Str("`~ not valid".into())
            } else {
                V::Str(ENCODED[i].to_string())
            }
        }
        _ => V::Nil,
    }
}

thread_local! {
    static NO_FMT: std::cell::Cell<bool> = std::cell::Cell::new(false);
}
const FMT_WORDS: [&str; 6] = ["print", "println", ".s", "concat", "join", "str>number"];

fn gen_tagmap(ch: &mut Choices) -> Vec<(V, V)> {
    let w_fmt = if NO_FMT.with(|c| c.get()) { 0 } else { 2 };
    match ch.weighted(&[2, 4, 2, w_fmt, 1]) {
        0 => vec![],
        1 => vec![(V::Str("k".into()), val::gen_scalar(ch))],
        2 => vec![(V::Str("len".into()), V::Int(8)), (V::Str("big".into()), V::Flag(true))],
        3 => vec![(V::Str("#fmt".into()), V::Int([0, 2, 8, 16, 0x110, 0xffff, 10][ch.below(7)])), (V::Str("z".into()), V::Nil)],
        _ => vec![(V::Str("k".into()), V::Tagged(Box::new(V::Int(1)), vec![(V::Str("inner".into()), V::Str("t".into()))]))],
    }
}

/// wrap the value (and, independently, nested elements) in tag maps; returns whether anything was tagged
fn tagged(ch: &mut Choices, v: &V, top_p: (usize, usize), n: &mut usize) -> V {
    let inner = match v {
        V::Vec(items) => V::Vec(items.iter().map(|x| tagged(ch, x, (1, 4), n)).collect()),
        V::Map(m) => V::Map(m.iter().map(|(k, x)| (if ch.chance(1, 6) { *n += 1; V::Tagged(Box::new(k.clone()), gen_tagmap(ch)) } else { k.clone() }, tagged(ch, x, (1, 4), n))).collect()),
        V::Tagged(x, t) => {
            // already tagged in the plain run as well: keep as is
            return V::Tagged(x.clone(), t.clone());
        }
        other => other.clone(),
    };
    if ch.chance(top_p.0, top_p.1) {
        *n += 1;
        V::Tagged(Box::new(inner), gen_tagmap(ch))
    } else {
        inner
    }
}

thread_local! {
    static BASE: Xstate = {
        let mut xs = xs::boot_safe();
        xs.intercept_output(true).unwrap();
        xs.set_binary_input(xeh::bitstr::Bitstr::from(INPUT.to_vec())).unwrap();
        xs.eval("u8 drop").unwrap();
        let _ = xs.read_stdout();
        xs
    };
}

struct Obs {
    res: Xresult,
    stack: Vec<Cell>,
    vars: Vec<(String, Cell)>,
    stdout: String,
}

fn run(word: &str, args: &[V]) -> Result<Obs, String> {
    let mut xs = BASE.with(|b| b.clone());
    xs.set_insn_limit(Some(50_000)).unwrap();
    for a in args {
        xs.push_data(val::to_cell(a)).unwrap();
    }
    let res = guard(|| xs.eval(word))?;
    let vars = ["input", "offset", "output", "output-length", "big?"].iter().map(|n| (n.to_string(), xs.get_var_value(n).cloned().unwrap_or(Cell::Nil))).collect();
    Ok(Obs { res, stack: xs::stack(&xs), vars, stdout: xs::take_stdout(&mut xs) })
}

fn mode_a(ch: &mut Choices, ctx: &CaseCtx, out: &mut CaseOut) {
    let (word, alts) = TABLE[ch.below(TABLE.len())];
    let alts: Vec<&str> = alts.split('|').collect();
    let alt = alts[ch.below(alts.len())];
    let codes: Vec<&str> = alt.split(' ').filter(|s| !s.is_empty()).collect();
    let arbitrary = !codes.is_empty() && ch.chance(1, 5);
    val::set_safe(true);
    NO_FMT.with(|c| c.set(FMT_WORDS.contains(&word)));
    // (map and key arguments keep their type: a key of another class in the same map is C12's known finding;
    //  the width argument of int!/uint! is an allocation size and stays modest)
    let args: Vec<V> = codes.iter().map(|c| if arbitrary && *c != "Ks" && *c != "M" && *c != "Iw" && ch.chance(1, 2) { val::gen_value(ch, 1) } else { gen_arg(ch, c) }).collect();
    // tagging plan: at least one tag somewhere when there are arguments
    let mut ntags = 0usize;
    let mut targs: Vec<V> = args.iter().map(|a| tagged(ch, a, (1, 2), &mut ntags)).collect();
    if ntags == 0 && !targs.is_empty() {
        let i = ch.below(targs.len());
        if !targs[i].is_tagged() {
            targs[i] = V::Tagged(Box::new(targs[i].clone()), gen_tagmap(ch));
            ntags = 1;
        }
    }
    val::set_safe(false);
    NO_FMT.with(|c| c.set(false));
    let render = format!("word: {}\nplain : {}\ntagged: {}", word, args.iter().map(val::src).collect::<Vec<_>>().join("  "), targs.iter().map(val::src).collect::<Vec<_>>().join("  "));
    out.hash = hash_of(&(word, args.clone(), targs.clone()));
    out.class(if arbitrary { "arbitrary-arguments" } else { "typed-arguments" });
    let (u, t) = match (run(word, &args), run(word, &targs)) {
        (Ok(u), Ok(t)) => (u, t),
        (Err(pm), _) | (_, Err(pm)) => {
            out.fail(format!("panic: {}", pm), render.clone());
            out.render = Some(render);
            return;
        }
    };
    let (ku, kt) = (xs::kind_res(&u.res), xs::kind_res(&t.res));
    let fail = |out: &mut CaseOut, what: &str, detail: String| {
        out.fail(format!("{}: {}", word, what), format!("{}\n{}", detail, render));
    };
    if ku != kt {
        fail(out, "succeeds/fails differently with tagged arguments", format!("plain: {}  tagged: {}", xs::render_res(&u.res), xs::render_res(&t.res)));
    } else if ku == Kind::Ok {
        if u.stack.len() != t.stack.len() || u.stack.iter().zip(t.stack.iter()).any(|(a, b)| a != b && !veq(&val::of_cell(a), &val::of_cell(b))) {
            fail(out, "result differs with tagged arguments", format!("plain: [{}]\ntagged: [{}]", u.stack.iter().map(xs::render).collect::<Vec<_>>().join(" | "), t.stack.iter().map(xs::render).collect::<Vec<_>>().join(" | ")));
        } else if u.vars.iter().zip(t.vars.iter()).any(|(a, b)| a.1 != b.1 && !veq(&val::of_cell(&a.1), &val::of_cell(&b.1))) {
            let d = u.vars.iter().zip(t.vars.iter()).find(|(a, b)| a.1 != b.1).unwrap();
            fail(out, "cursor/output variables differ with tagged arguments", format!("{}: plain {} tagged {}", d.0 .0, xs::render(&d.0 .1), xs::render(&d.1 .1)));
        } else if u.stdout != t.stdout {
            fail(out, "printed text differs with tagged arguments", format!("plain {:?} tagged {:?}", u.stdout, t.stdout));
        } else if COMPUTING.contains(&word) {
            if let Some(c) = t.stack.iter().find(|c| c.tags().is_some()) {
                fail(out, "a freshly computed result carries tags", xs::render(c));
            }
        }
        // agreement of the model equality with the cell equality on the results (sanity of the oracle)
        if out.fail.is_none() {
            for (a, b) in u.stack.iter().zip(t.stack.iter()) {
                if !veq(&val::of_cell(a), &val::of_cell(b)) {
                    fail(out, "results equal? but structurally different", format!("{} vs {}", xs::render(a), xs::render(b)));
                }
            }
        }
    }
    out.nontrivial = ku == Kind::Ok && ntags > 0;
    if ku == Kind::Ok {
        out.class("plain-run-succeeds");
    } else {
        out.class("plain-run-fails");
    }
    if ctx.want_render || out.fail.is_some() {
        out.render = Some(render);
    }
}

fn mode_b(ch: &mut Choices, ctx: &CaseCtx, out: &mut CaseOut) {
    val::set_safe(true);
    let v0 = val::gen_value(ch, 2);
    val::set_safe(false);
    let (base, mut tags): (V, Option<Vec<(V, V)>>) = match &v0 {
        V::Tagged(x, t) => ((**x).clone(), Some(t.clone())),
        other => (other.clone(), None),
    };
    let mut xs = xs::fresh();
    xs.set_insn_limit(Some(50_000)).unwrap();
    xs.push_data(val::to_cell(&v0)).unwrap();
    let mut log = vec![format!("value: {}", val::src(&v0))];
    let n = 1 + ch.below(8);
    let mut declared = false;
    let keys = ["a", "b", "len", "#fmt"];
    for _ in 0..n {
        let k = V::Str(keys[ch.below(4)].to_string());
        let src = match ch.below(6) {
            5 => {
                // through a variable that holds the same value under other (or no) tags: the tags travel with the value
                if !declared {
                    declared = true;
                    let d = format!("{} var tv", val::src(&base));
                    log.push(d.clone());
                    let _ = guard(|| xs.eval(&d));
                }
                "! tv tv".to_string()
            }
            0 => {
                let x = val::gen_scalar(ch);
                let mut t = tags.clone().unwrap_or_default();
                val::map_insert(&mut t, k.clone(), x.clone());
                tags = Some(t);
                format!("{} {} insert-tag", val::src(&x), val::src(&k))
            }
            1 => {
                let mut t = tags.clone().unwrap_or_default();
                val::map_remove(&mut t, &k);
                tags = Some(t);
                format!("{} remove-tag", val::src(&k))
            }
            2 => {
                let m: Vec<(V, V)> = (0..ch.below(3)).map(|i| (V::Str(keys[i].to_string()), val::gen_scalar(ch))).collect();
                tags = Some(m.clone());
                format!("{} with-tags", val::src(&V::Map(m)))
            }
            3 => {
                // get-tag: observe, then restore the value
                let want = tags.as_ref().and_then(|t| val::map_get(t, &k).cloned()).unwrap_or(V::Nil);
                let s = format!("dup {} get-tag", val::src(&k));
                log.push(s.clone());
                match guard(|| xs.eval(&s)) {
                    Ok(Ok(())) => {
                        let got = xs.pop_data().ok().map(|c| val::of_cell(&c));
                        if !got.as_ref().map(|g| val::veq_tags(g, &want)).unwrap_or(false) {
                            out.fail("get-tag: wrong tag value", format!("got {:?} expected {}\n{}", got.map(|g| val::src(&g)), val::src(&want), log.join("\n")));
                        }
                    }
                    other => out.fail("get-tag: failed", format!("{:?}\n{}", other.map(|r| xs::render_res(&r)), log.join("\n"))),
                }
                continue;
            }
            _ => {
                let s = "dup tags".to_string();
                log.push(s.clone());
                match guard(|| xs.eval(&s)) {
                    Ok(Ok(())) => {
                        let got = xs.pop_data().ok().map(|c| val::of_cell(&c));
                        let ok = match (&got, &tags) {
                            (Some(V::Nil), None) => true,
                            (Some(V::Nil), Some(t)) => t.is_empty(),
                            (Some(g), Some(t)) => val::veq_tags(g, &V::Map(t.clone())),
                            (Some(V::Map(m)), None) => m.is_empty(),
                            _ => false,
                        };
                        if !ok {
                            out.fail("tags: does not return the attached map", format!("got {:?} model {:?}\n{}", got.map(|g| val::src(&g)), tags.as_ref().map(|t| val::src(&V::Map(t.clone()))), log.join("\n")));
                        }
                    }
                    other => out.fail("tags: failed", format!("{:?}\n{}", other.map(|r| xs::render_res(&r)), log.join("\n"))),
                }
                continue;
            }
        };
        log.push(src.clone());
        match guard(|| xs.eval(&src)) {
            Ok(Ok(())) => {}
            Ok(Err(e)) => {
                out.fail("tag word failed", format!("{}\n{}", xs::render_err(&e), log.join("\n")));
                break;
            }
            Err(pm) => {
                out.fail(format!("panic: {}", pm), log.join("\n"));
                break;
            }
        }
        // the value itself is unaltered and carries exactly the model's tags
        let top = xs.get_data(0).cloned();
        let okv = xs.data_depth() == 1
            && top
                .as_ref()
                .map(|c| {
                    let g = val::of_cell(c);
                    let want = V::Tagged(Box::new(base.clone()), tags.clone().unwrap_or_default());
                    val::veq_tags(&g, &want) && c == &val::to_cell(&base)
                })
                .unwrap_or(false);
        if !okv {
            out.fail("tag word altered the value or attached the wrong map", format!("now {:?}, model value {} tags {:?}\n{}", top.map(|c| xs::render(&c)), val::src(&base), tags.as_ref().map(|t| val::src(&V::Map(t.clone()))), log.join("\n")));
            break;
        }
    }
    out.nontrivial = n >= 2;
    out.class("tag-words-vs-model");
    out.hash = hash_of(&log);
    if ctx.want_render || out.fail.is_some() {
        out.render = Some(log.join(" ; "));
    }
}

pub fn case(ch: &mut Choices, ctx: &CaseCtx) -> CaseOut {
    let mut out = CaseOut::default();
    if ch.chance(1, 8) {
        mode_b(ch, ctx, &mut out);
    } else {
        mode_a(ch, ctx, &mut out);
    }
    val::set_safe(false);
    out
}
