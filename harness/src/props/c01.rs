// C01 — structured control flow compiles to bytecode that means what the source says.
use crate::common::*;
use crate::prog::*;
use crate::xs::{self, Kind};
use crate::PropDef;
use xeh::prelude::*;

pub const DEF: PropDef = PropDef {
    id: "C01",
    rule: "programs generated from the control-flow grammar (literals, stack/arith words, if/else/then, case/of/endof/endcase, begin-until, begin-while-repeat, begin-repeat, do-loop with I/J/K, break, \
definitions incl. redefinition/recursion/nesting, locals incl. re-initialisation in loops, global variables; empty bodies, zero-trip/negative/reversed ranges, wrong-typed conditions; random whitespace and comments; \
1-3 submissions, each by eval, by compile + run, or compiled with recording on and driven k steps forward, 1-3 steps back and then run (output, which stepping back does not retract, is then not compared); a chunk that fails as the evaluator predicts is followed by the remaining chunks, which must start with no open loop or call) are run on the interpreter and on an independent tree-walking evaluator of the AST: data stack, every global variable, stdout, empty loop/return stacks on success; \
same error kind at exactly the same token (and stack agreeing up to the failing word's arity) on failure; a structurally infinite loop must never fall through (bounded: 40*B+64 instructions, marker after the loop must not print). \
Non-trivial = >=2 nested control constructs, or a loop with >=1 iteration, or a call; distinct = hash of the rendered sources",
    assumptions: &[
        "model step budget B = 2000 (quick) / 5000 (thorough); programs that exhaust it outside a structurally infinite loop are inconclusive (counted)",
        "primitive meanings follow the behaviour pinned by the repository's tests (rot exchanges 1st and 3rd, case leaves the selector for the default part)",
    ],
    max_len: 700,
    quick_cases: 160_000,
    thorough_cases: 600_000,
    case,
    systematic: None,
    both_profiles_quick: false,
    max_shrink_iters: 12_000,
    exhaustive_note: None,
};


pub fn v_of_cell(c: &Cell) -> Option<V> {
    if c.tags().is_some() {
        return None;
    }
    match c {
        Cell::Int(i) => Some(V::Int(*i)),
        Cell::Flag(b) => Some(V::Flag(*b)),
        Cell::Nil => Some(V::Nil),
        _ => None,
    }
}

fn stack_as_v(xs: &Xstate) -> Vec<Option<V>> {
    xs::stack(xs).iter().map(v_of_cell).collect()
}

fn render_vs(v: &[V]) -> String {
    v.iter().map(|x| x.render()).collect::<Vec<_>>().join(" ")
}

fn kind_matches(m: EKind, k: Kind, _e: &Xerr) -> bool {
    match m {
        EKind::Underflow => k == Kind::Underflow,
        EKind::Type => k == Kind::Type,
        EKind::LoopStack => k == Kind::LoopStack,
        EKind::DivZero => k == Kind::DivZero,
        EKind::Overflow => k == Kind::Overflow,
    }
}

pub fn case(ch: &mut Choices, ctx: &CaseCtx) -> CaseOut {
    let mut out = CaseOut::default();
    let opts = if ctx.tier_thorough { GenOpts::thorough() } else { GenOpts::quick() };
    let p = generate(ch, opts);
    let budget: u64 = if ctx.tier_thorough { 5_000 } else { 2_000 };
    // each chunk is submitted with eval or with compile + run
    // (or compiled and driven like a debugger session: k steps forward, j back, then run - recording on)
    let drive: Vec<(u8, usize, usize)> = (0..3).map(|_| (ch.weighted(&[3, 3, 2]) as u8, ch.below(40), 1 + ch.below(3))).collect();
    run_and_compare(&p, budget, &drive, &mut out);
    // classification
    let f = &p.features;
    let nested = nesting_depth_prog(&p) >= 2;
    out.hash = hash_of(&p.sources);
    for c in f {
        out.class(c);
    }
    out.nontrivial = out.nontrivial || nested;
    if ctx.want_render || out.fail.is_some() {
        out.render = Some(p.sources.iter().enumerate().map(|(i, s)| format!("{} #{}: {}", match drive.get(i) { Some((1, _, _)) => "compile+run".to_string(), Some((2, f, b)) => format!("compile, record, {} steps forward, {} back, run", f, b), _ => "eval".to_string() }, i, s.replace('\n', "\u{23ce}").replace('\r', "\u{240d}"))).collect::<Vec<_>>().join("\n"));
    }
    out
}

fn nesting_depth(nodes: &[Node], p: &Prog) -> usize {
    nodes
        .iter()
        .map(|n| match n {
            Node::If { then_b, else_b, .. } => 1 + nesting_depth(then_b, p).max(else_b.as_ref().map(|b| nesting_depth(b, p)).unwrap_or(0)),
            Node::Case { arms, default } => 1 + arms.iter().map(|a| nesting_depth(&a.body, p)).max().unwrap_or(0).max(nesting_depth(default, p)),
            Node::Until { body, .. } | Node::Repeat { body, .. } | Node::Do { body, .. } => 1 + nesting_depth(body, p),
            Node::While { pre, body, .. } => 1 + nesting_depth(pre, p).max(nesting_depth(body, p)),
            Node::Def { def } => nesting_depth(&p.defs[*def].body, p),
            _ => 0,
        })
        .max()
        .unwrap_or(0)
}

fn nesting_depth_prog(p: &Prog) -> usize {
    p.chunks.iter().map(|c| nesting_depth(c, p)).max().unwrap_or(0)
}

/// Runs the program on the interpreter and the model, chunk by chunk.
pub fn run_and_compare(p: &Prog, budget: u64, drive: &[(u8, usize, usize)], out: &mut CaseOut) {
    let mut xs = xs::fresh();
    let mut m = Model::new(p, budget);
    let insn_limit = (40 * budget + 64) as usize;
    let mut failed_before = false;
    for c in 0..p.chunks.len() {
        xs.set_insn_limit(Some(insn_limit)).unwrap();
        xs.set_stack_limit(Some(2_000_000)).unwrap();
        let src = &p.sources[c];
        let (mode, fwd, back) = drive.get(c).copied().unwrap_or((0, 0, 0));
        let _ = failed_before;
        if mode == 1 {
            out.class("chunk-submitted-by-compile+run");
        } else if mode == 2 {
            out.class("chunk-stepped-forward-back-then-run");
        }
        xs.set_recording_enabled(mode == 2);
        let res = match guard(|| match mode {
            0 => xs.eval(src),
            1 => xs.compile(src).and_then(|_| xs.run()),
            _ => {
                xs.compile(src)?;
                let mut done = 0;
                while done < fwd && xs.is_running() {
                    xs.next()?;
                    done += 1;
                }
                for _ in 0..back.min(done) {
                    xs.rnext()?;
                }
                xs.run()
            }
        }) {
            Ok(r) => r,
            Err(pm) => {
                out.fail(format!("panic: {}", pm), format!("while evaluating chunk {}", c));
                return;
            }
        };
        let out_before = m.out.len();
        let cont = m.run_chunk(c);
        let stdout = xs::take_stdout(&mut xs);
        let model_out = &m.out[out_before..];
        for e in &m.events {
            out.class(e);
        }
        if m.loop_iterations > 0 || m.max_call_depth > 0 {
            out.nontrivial = true;
        }
        if m.max_call_depth >= 2 {
            out.class("call-depth>=2");
        }
        match (&m.outcome, cont) {
            (Outcome::Fuel { in_infinite }, _) => {
                if *in_infinite {
                    out.class("never-terminates");
                    out.nontrivial = true;
                    if res.is_ok() {
                        out.fail("structurally infinite loop falls through", format!("chunk {} returned Ok; stack {}", c, xs::render_stack(&xs)));
                    } else if stdout.contains(&format!("{}", MARKER)) {
                        out.fail("structurally infinite loop falls through", format!("chunk {}: code after the loop ran (marker printed)", c));
                    }
                } else {
                    out.class("inconclusive-fuel");
                    out.discarded = true;
                }
                return;
            }
            (Outcome::Unspecified, _) => {
                out.class("reads-unset-local(unspecified)");
                out.discarded = true;
                return;
            }
            (Outcome::Err(me), _) => {
                out.class("error-arm");
                let e = match &res {
                    Err(e) => e.clone(),
                    Ok(()) => {
                        out.fail(
                            format!("program succeeds where structural evaluation fails ({:?})", me.kind),
                            format!("chunk {}: model fails at token #{} `{}` with {:?}; interpreter stack {}", c, me.tok, p.tokens[me.tok].text, me.kind, xs::render_stack(&xs)),
                        );
                        return;
                    }
                };
                let k = xs::kind_of(&e);
                if k == Kind::InsnLimit {
                    out.fail("instruction limit hit although structural evaluation terminates", format!("chunk {}", c));
                    return;
                }
                if !kind_matches(me.kind, k, &e) {
                    out.fail(
                        format!("different error kind (model {:?})", me.kind),
                        format!("chunk {}: model {:?} at `{}`, interpreter {:?}", c, me.kind, p.tokens[me.tok].text, e),
                    );
                    return;
                }
                // location: exactly the failing token
                let t = &p.tokens[me.tok];
                match xs.last_err_location() {
                    None => {
                        out.fail("error without a location", format!("chunk {}: {:?}", c, e));
                        return;
                    }
                    Some(loc) => {
                        let r = loc.token.range();
                        let want_file = format!("<buffer#{}>", t.chunk);
                        if r.start != t.start || r.end != t.end || loc.filename.as_str() != want_file {
                            out.fail(
                                "error reported at a different point",
                                format!(
                                    "chunk {}: model fails at token `{}` [{}..{}] of {}, interpreter reports `{}` [{}..{}] of {} ({:?})",
                                    c, t.text, t.start, t.end, want_file, loc.token.as_str(), r.start, r.end, loc.filename, e
                                ),
                            );
                            return;
                        }
                    }
                }
                // stack: equal to the model's stack before the failing word, minus at most `arity` operands
                let got = stack_as_v(&xs);
                let before = &me.stack_before;
                let ok = got.len() <= before.len()
                    && got.len() + me.arity >= before.len()
                    && got.iter().zip(before.iter()).all(|(g, b)| g.as_ref() == Some(b));
                if !ok {
                    out.fail(
                        "stack at the failure differs",
                        format!("chunk {}: model stack before `{}`: [{}], interpreter: [{}]", c, t.text, render_vs(before), xs::render_stack(&xs)),
                    );
                    return;
                }
                if mode != 2 && stdout != model_out {
                    out.fail("output differs (failing program)", format!("chunk {}: model {:?}, interpreter {:?}", c, model_out, stdout));
                }
                compare_vars(p, &m, &xs, c, out);
                if out.fail.is_some() || c + 1 == p.chunks.len() {
                    return;
                }
                // the next chunk starts from what the failed program left: its data stack, the variables, no open
                // loop or call
                match got.into_iter().collect::<Option<Vec<V>>>() {
                    Some(st) => {
                        failed_before = true;
                        m.recover(st);
                        out.class("chunk-after-a-failed-chunk");
                        continue;
                    }
                    None => return,
                }
            }
            (Outcome::Done, _) => {
                if let Err(e) = &res {
                    let loc = xs.last_err_location().map(|l| format!("{:?}", l.token.as_str())).unwrap_or_default();
                    out.fail(
                        format!("program fails where structural evaluation succeeds ({:?})", xs::kind_of(e)),
                        format!("chunk {}: {:?} at {}; model stack [{}]", c, e, loc, render_vs(&m.stack)),
                    );
                    return;
                }
                let got = stack_as_v(&xs);
                if got.len() != m.stack.len() || !got.iter().zip(m.stack.iter()).all(|(g, b)| g.as_ref() == Some(b)) {
                    out.fail("data stack differs", format!("chunk {}: model [{}], interpreter [{}]", c, render_vs(&m.stack), xs::render_stack(&xs)));
                    return;
                }
                if mode != 2 && stdout != model_out {
                    out.fail("output differs", format!("chunk {}: model {:?}, interpreter {:?}", c, model_out, stdout));
                    return;
                }
                compare_vars(p, &m, &xs, c, out);
                if out.fail.is_some() {
                    return;
                }
                if !xs::section(&xs, "loops").trim().is_empty() {
                    out.fail("a terminated loop leaves a loop frame behind", format!("chunk {}: loops = {}", c, xs::section(&xs, "loops")));
                    return;
                }
                if !xs::section(&xs, "return_stack").trim().is_empty() {
                    out.fail("return stack not empty after the program", format!("chunk {}", c));
                    return;
                }
                // harness self-check of the fuel constant
                let meter = xs::section_num(&xs, "insn_meter") as u64;
                if meter > 40 * m.steps + 64 {
                    out.class("harness:fuel-constant-exceeded");
                    out.discarded = true;
                }
            }
        }
    }
}

fn compare_vars(p: &Prog, m: &Model, xs: &Xstate, c: usize, out: &mut CaseOut) {
    // by name only the latest compiled variable is reachable
    for (vid, name) in p.var_names.iter().enumerate() {
        if p.var_chunk[vid] > c {
            continue;
        }
        let latest = (0..p.var_names.len()).filter(|i| &p.var_names[*i] == name && p.var_chunk[*i] <= c).max();
        if latest != Some(vid) {
            continue;
        }
        let want = m.vars[vid].clone().unwrap_or(V::Nil);
        match xs.get_var_value(name) {
            Ok(cell) => {
                if v_of_cell(cell).as_ref() != Some(&want) {
                    out.fail("global variable differs", format!("chunk {}: {} = {:?}, model {}", c, name, cell, want.render()));
                    return;
                }
            }
            Err(e) => {
                out.fail("global variable missing", format!("chunk {}: {} -> {:?}, model {}", c, name, e, want.render()));
                return;
            }
        }
    }
}
