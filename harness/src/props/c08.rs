// C08 — no source text, input or API call sequence can crash the interpreter.
use crate::common::*;
use crate::xs;
use crate::PropDef;
use xeh::prelude::*;

pub const DEF: PropDef = PropDef {
    id: "C08",
    rule: "(1) systematic: every word of the live dictionary applied to every tuple of argument classes up to arity 2 (exhaustive) and arity 3 (sampled in quick, exhaustive in thorough) from {nil, flags, 0, +-1, 255, 2^63-1, 2^63, 2^64-1, 2^64, i128 min/max, isize min, 0.0, -0.0, 1.5, inf, NaN, empty/short/76-byte non-ASCII/long strings, empty/aligned/unaligned bit-strings, empty/flat/nested vectors, maps, tagged values, values with a hand-made #fmt tag}, \
on a clone of a booted interpreter with a binary input open and output intercepted; immediate words are followed by the token shapes they parse (names, literals, comments, let patterns, unbalanced closers), also inside definitions, builders and meta blocks. After the call: error formatting (pretty_error, Display/Debug of the error, format_cell and format_cell_safe of the top of the stack), the debugger views (location_from_current_ip, fmt_opcode over the newest code, var_list) and a follow-up `depth`. \
(2) token soups (2/3 of the random cases): 1-40 tokens from the live dictionary, literals of every type, control words in balanced and unbalanced arrangements and arbitrary UTF-8 fragments, spread over a generated sequence of eval / compile / run / next / rnext / error-formatting / recording calls and embedding-API calls (push_data / pop_data, defvar / get_var / set_var / update_var with valid and wild references, set_binary_input, eval_file / compile_file of a missing file, output interception, clone) on one interpreter. (3) debugger sessions (1/3): a program from a pool (loops, foreach, calls, locals, builders, cursor) is compiled and stepped into with next(), interrupted by failing or unrelated submissions (eval / compile), resumed with run / next / rnext, with recording on or off. All with limits set (20000 instructions, stack 2000, heap 4096) and in both build profiles. \
Oracle: every call returns; any unwind (caught) or death of the worker process (attributed by re-running the worker with per-case logging) is a violation; argument positions that are allocation sizes (int!/uint! width) are kept <= 4096, an out-of-memory abort is inconclusive. \
Non-trivial = the call reached a native word with all its operands present or a source of >=3 tokens; distinct = hash of word+classes or of the soup",
    assumptions: &["panic signature = (word, normalised panic message, source file); the external words (exec-piped, read-all, write-all, include, require) and the random words are stubbed", "instruction / stack / heap limits are always set, as the statement requires"],
    max_len: 160,
    quick_cases: 60_000,
    thorough_cases: 3_000_000,
    case,
    systematic: Some(systematic),
    both_profiles_quick: true,
    max_shrink_iters: 6000,
    exhaustive_note: Some("every dictionary word x every argument-class tuple of arity 0, 1 and 2 (and the immediate words x every follow-up template) is enumerated completely; arity 3 completely in the thorough tier"),
};

const LONG_NONASCII: &str = "\u{e9}\u{e9}\u{e9}\u{e9}\u{e9}\u{e9}\u{e9}\u{e9}\u{e9}\u{e9}\u{e9}\u{e9}\u{e9}\u{e9}\u{e9}\u{e9}\u{e9}\u{e9}\u{e9}\u{e9}\u{e9}\u{e9}\u{e9}\u{e9}\u{e9}\u{e9}\u{e9}\u{e9}\u{e9}\u{e9}\u{e9}\u{e9}\u{e9}\u{e9}\u{e9}\u{e9}\u{e9}x"; // 38 two-byte chars + 1 = 77 bytes, char boundary not at 75

fn with_fmt(c: Cell, raw: i128) -> Cell {
    c.insert_tag(Cell::Str(Xstr::from("#fmt")), Cell::Int(raw))
}

fn unaligned_bits() -> Cell {
    let b = xeh::bitstr::Bitstr::from(vec![0xa5u8, 0x5a, 0xff]);
    Cell::Bitstr(b.substr(3, 17).unwrap())
}

/// argument classes (index -> value); `modest` marks the classes usable as an allocation size
fn arg_classes() -> Vec<(&'static str, Cell, bool)> {
    let v123: Xvec = [1, 2, 3].iter().map(|i| Cell::Int(*i)).collect();
    let nested: Xvec = vec![Cell::Vector(v123.clone()), Cell::Str(Xstr::from("s")), Cell::Vector(Xvec::new()), Cell::Nil].into_iter().collect();
    let mut m = Xmap::new();
    m.insert_mut(Cell::Str(Xstr::from("a")), Cell::Int(1));
    m.insert_mut(Cell::Str(Xstr::from("b")), Cell::Vector(v123.clone()));
    let tagvec: Xvec = vec![Cell::Int(1).with_tags(Xmap::new()), with_fmt(Cell::Int(255), 16)].into_iter().collect();
    vec![
        ("nil", Cell::Nil, false),
        ("true", Cell::Flag(true), false),
        ("0", Cell::Int(0), true),
        ("1", Cell::Int(1), true),
        ("-1", Cell::Int(-1), false),
        ("255", Cell::Int(255), true),
        ("8", Cell::Int(8), true),
        ("2^63-1", Cell::Int(i64::MAX as i128), false),
        ("2^63", Cell::Int(1i128 << 63), false),
        ("2^64-1", Cell::Int(u64::MAX as i128), false),
        ("2^64", Cell::Int(1i128 << 64), false),
        ("i128max", Cell::Int(i128::MAX), false),
        ("i128min", Cell::Int(i128::MIN), false),
        ("isizemin", Cell::Int(isize::MIN as i128), false),
        ("0.0", Cell::Real(0.0), false),
        ("-0.0", Cell::Real(-0.0), false),
        ("1.5", Cell::Real(1.5), false),
        ("inf", Cell::Real(f64::INFINITY), false),
        ("nan", Cell::Real(f64::NAN), false),
        ("\"\"", Cell::Str(Xstr::from("")), false),
        ("\"a\"", Cell::Str(Xstr::from("a")), false),
        ("str77", Cell::Str(Xstr::from(LONG_NONASCII)), false),
        ("str-digits", Cell::Str(Xstr::from("12z.5")), false),
        ("str-nbsp-junk", Cell::Str(Xstr::from("12\u{a0}g")), false),
        ("str-wide-blank", Cell::Str(Xstr::from("\u{3000}zz 1\u{2003}_")), false),
        ("bits-empty", Cell::Bitstr(xeh::bitstr::Bitstr::new()), false),
        ("bits-aligned", Cell::Bitstr(xeh::bitstr::Bitstr::from(vec![0x41u8, 0x00, 0xff])), false),
        ("bits-unaligned", unaligned_bits(), false),
        ("bits-unaligned-whole-bytes", Cell::Bitstr(xeh::bitstr::Bitstr::from(vec![0xa5u8, 0x5a, 0xff, 0x0f]).substr(3, 19).unwrap()), false),
        ("[]", Cell::Vector(Xvec::new()), false),
        ("[1 2 3]", Cell::Vector(v123), false),
        ("nested-vec", Cell::Vector(nested), false),
        ("{}", Cell::Map(Xmap::new()), false),
        ("map", Cell::Map(m), false),
        ("tagged-int", Cell::Int(7).with_tags(Xmap::new()), true),
        ("int-fmt-1", with_fmt(Cell::Int(12), 1), true),
        ("str-fmt-huge", with_fmt(Cell::Str(Xstr::from("zz")), 0xffff_ffff), false),
        ("str-fmt-0", with_fmt(Cell::Str(Xstr::from("10")), 0), false),
        ("vec-of-tagged", Cell::Vector(tagvec), false),
        ("tagged-0", Cell::Int(0).with_tags(Xmap::new()), true),
        ("tagged-0.0", Cell::Real(0.0).with_tags(Xmap::new()), false),
        ("tagged-vec", Cell::Vector([4, 5].iter().map(|i| Cell::Int(*i)).collect::<Xvec>()).with_tags(Xmap::new()), false),
        ("tagged-map", Cell::Map(Xmap::new()).with_tags(Xmap::new()), false),
        ("tagged-bits", Cell::Bitstr(xeh::bitstr::Bitstr::from(vec![0x00u8, 0x01])).with_tags(Xmap::new()), false),
        ("tagged-str", with_fmt(Cell::Str(Xstr::from("ff")), 16), false),
        ("tagged-nil", Cell::Nil.with_tags(Xmap::new()), false),
    ]
}

/// follow-up templates for immediate words ({w} = the word)
const TEMPLATES: [&str; 32] = [
    "{w}",
    "1 {w}",
    "{w} foo",
    "{w} 1",
    "{w} \\ comment\n foo",
    "{w} \\( c \\) [ a ]",
    ": zf {w} ;",
    ": zf 1 {w} zz ;",
    "[ {w} ]",
    "#( {w} #)",
    "{w} {w}",
    "1 2 {w} [ a b ]",
    "{ 1 \"k\" } {w} { \"k\" v }",
    "5 ^{ 1 \"t\" ^} {w} ^ { \"t\" x } y",
    "{w} \"str\"",
    "{w} [",
    "{w} {",
    "{w} ^",
    "{w} &",
    "[ 1 ] {w} [ & ]",
    "[ 1 2 ] {w} [ a & b ]",
    "{w} ]",
    "[ 1 ] {w} [ \\ c\n a ]",
    "{ 1 \"k\" } {w} { \\( c \\) \"k\" v }",
    "5 {w} ^ \\ c\n { }",
    "1 if {w} then",
    "begin {w} 1 until",
    "3 0 do {w} loop",
    "{w} zname 1 2 3 {w}",
    "enum E {w} :A {w} endenum",
    "{w} E 170141183460469231731687303715884105727 = A : B endenum",
    "{w} E : A -170141183460469231731687303715884105728 = B : C endenum A B C",
];

/// words whose last argument is an allocation size
const ALLOC_LAST: [&str; 2] = ["int!", "uint!"];

thread_local! {
    static BASE: Xstate = {
        let mut xs = xs::boot_safe();
        xs.intercept_output(true).unwrap();
        xs.set_binary_input(xeh::bitstr::Bitstr::from(vec![0x41u8, 0x31, 0x00, 0x7f, 0x80, 0xff, 0x12, 0x34, 0x56])).unwrap();
        xs.eval("3 bits drop").unwrap();
        let _ = xs.read_stdout();
        xs
    };
    static WORDS: Vec<(String, bool)> = BASE.with(|b| b.verif_dict().into_iter().filter(|(_, k)| *k == "native" || *k == "immediate").map(|(n, k)| (n.to_string(), k == "immediate")).collect());
    static CLASSES: Vec<(&'static str, Cell, bool)> = arg_classes();
}

fn limits(xs: &mut Xstate) {
    xs.set_insn_limit(Some(20_000)).unwrap();
    xs.set_stack_limit(Some(2_000)).unwrap();
    xs.set_heap_limit(Some(4_096)).unwrap();
}

/// everything an embedder may call after a failed (or successful) submission
fn after_calls(xs: &mut Xstate, res: &Xresult) -> Result<(), String> {
    guard(|| {
        let _ = xs.pretty_error();
        let _ = xs.last_err_location().map(|l| format!("{:?}", l));
        if let Err(e) = res {
            let _ = format!("{}", e);
            let _ = format!("{:?}", e);
            let _ = format!("{:1$}", e, 0x40a);
        }
        if let Some(top) = xs.get_data(0).cloned() {
            let _ = xs.format_cell(&top);
            let _ = xs.format_cell_safe(&top);
        }
        let _ = xs.last_error().map(|e| format!("{}", e));
        // the debugger-facing views
        let _ = xs.location_from_current_ip().map(|l| format!("{:?}", l));
        let code = xs.bytecode();
        let from = code.len().saturating_sub(24);
        for (i, op) in code.iter().enumerate().skip(from) {
            let _ = xs.fmt_opcode(i, op);
        }
        let _ = xs.var_list().len();
    })?;
    // the interpreter must still be usable
    let r = guard(|| xs.eval("depth"))?;
    let _ = r;
    Ok(())
}

fn sys_case(ch: &mut Choices, ctx: &CaseCtx) -> CaseOut {
    let mut out = CaseOut::default();
    let nwords = WORDS.with(|w| w.len());
    let wi = ch.below(nwords);
    let (word, immediate) = WORDS.with(|w| w[wi].clone());
    let mut xs = BASE.with(|b| b.clone());
    limits(&mut xs);
    let render: String;
    let src: String;
    if immediate {
        let t = ch.below(TEMPLATES.len());
        src = TEMPLATES[t].replace("{w}", &word);
        render = format!("eval {:?}", src);
        out.hash = hash_of(&(wi, 99usize, t));
    } else {
        let arity = ch.below(4);
        let mut names = Vec::new();
        let nclasses = CLASSES.with(|c| c.len());
        let mut idx = Vec::new();
        for _ in 0..arity {
            idx.push(ch.below(nclasses));
        }
        // allocation sizes stay modest
        if ALLOC_LAST.contains(&word.as_str()) {
            if let Some(last) = idx.last() {
                if !CLASSES.with(|c| c[*last].2) {
                    out.discarded = true;
                    return out;
                }
            }
        }
        for i in &idx {
            let (n, c) = CLASSES.with(|c| (c[*i].0, c[*i].1.clone()));
            names.push(n);
            xs.push_data(c).unwrap();
        }
        src = word.clone();
        render = format!("args [{}] word {}", names.join(", "), word);
        out.hash = hash_of(&(wi, arity, idx));
    }
    let res = match guard(|| xs.eval(&src)) {
        Ok(r) => r,
        Err(pm) => {
            out.fail(format!("panic: {} [{}]", pm, word), render.clone());
            out.render = Some(render);
            return out;
        }
    };
    out.nontrivial = !matches!(res, Err(Xerr::StackUnderflow)) || immediate;
    if let Err(pm) = after_calls(&mut xs, &res) {
        out.fail(format!("panic: {} [formatting/after {}]", pm, word), render.clone());
    }
    if ctx.want_render || out.fail.is_some() {
        out.render = Some(render);
    }
    out
}

fn systematic(k: usize, n: usize, cfg: &EngineCfg, stats: &mut Stats) {
    let mut f = |ch: &mut Choices, ctx: &CaseCtx| sys_case(ch, ctx);
    let nwords = WORDS.with(|w| w.len());
    let nclasses = CLASSES.with(|c| c.len()) as u32;
    let mut job = 0usize;
    let mut rendered = 0;
    // pseudo-random sampling of arity-3 tuples in the quick tier (deterministic in seed)
    let mut rng = cfg.seed | 1;
    let mut next = move || {
        rng ^= rng << 13;
        rng ^= rng >> 7;
        rng ^= rng << 17;
        rng
    };
    for wi in 0..nwords {
        let immediate = WORDS.with(|w| w[wi].1);
        job += 1;
        if job % n != k {
            continue;
        }
        let mut run = |choices: &[u32], stats: &mut Stats| -> bool {
            rendered += 1;
            run_direct(choices, cfg, stats, rendered % 5000 == 1, &mut f)
        };
        if immediate {
            for t in 0..TEMPLATES.len() as u32 {
                if !run(&[wi as u32, t], stats) {
                    return;
                }
            }
            continue;
        }
        if !run(&[wi as u32, 0], stats) {
            return;
        }
        for a in 0..nclasses {
            if !run(&[wi as u32, 1, a], stats) {
                return;
            }
            for b in 0..nclasses {
                if !run(&[wi as u32, 2, a, b], stats) {
                    return;
                }
                if cfg.thorough {
                    for c in 0..nclasses {
                        if !run(&[wi as u32, 3, a, b, c], stats) {
                            return;
                        }
                    }
                }
            }
        }
        if !cfg.thorough {
            for _ in 0..600 {
                let r = next();
                let (a, b, c) = ((r % nclasses as u64) as u32, ((r >> 16) % nclasses as u64) as u32, ((r >> 32) % nclasses as u64) as u32);
                if !run(&[wi as u32, 3, a, b, c], stats) {
                    return;
                }
            }
        }
    }
    stats.exhaustive_part = true;
}

// ---------------------------------------------------------------------------
// token soups over API call sequences
// ---------------------------------------------------------------------------
const LITS: [&str; 45] = [
    "0", "1", "-1", "255", "8", "9223372036854775807", "9223372036854775808", "18446744073709551615", "18446744073709551616", "170141183460469231731687303715884105727", "-170141183460469231731687303715884105728", "0x10", "0b101", "1.5", "-0.0", "1e3",
    "\"\"", "\"a\"", "\"\u{e9}\u{e9}\u{e9}\u{e9}\u{e9}\u{e9}\u{e9}\u{e9}\u{e9}\u{e9}\u{e9}\u{e9}\u{e9}\u{e9}\u{e9}\u{e9}\u{e9}\u{e9}\u{e9}\u{e9}\u{e9}\u{e9}\u{e9}\u{e9}\u{e9}\u{e9}\u{e9}\u{e9}\u{e9}\u{e9}\u{e9}\u{e9}\u{e9}\u{e9}\u{e9}\u{e9}\u{e9}x\"", "\"12\"", "\"1.5\"", "||", "|ff|", "|a5 x.x|", "|0|", "nil", "true", "false", "[ ]", "[ 1 2 3 ]", "{ }", "{ 1 \"a\" }", "^{ 1 \"k\" ^}", "^{ 16 \"#fmt\" ^}",
    "^{ 4294967295 \"#fmt\" ^}", "^hex", "^bin", "true fmt/prefix", "true fmt/tags", "\\ comment\n", "\\( c \\)", "foo", "2d", "\"unterminated", "|zz",
];

const FRAGS: [&str; 12] = ["\u{a0}", "\u{2003}", "\u{feff}", "\u{201c}q\u{201d}", "\\", "\\(", "\\)", "\u{1F600}", "\u{0}", "\r", "\t", "\u{e9}"];

const STR_ALPHABET: [char; 22] = ['0', '1', '9', 'a', 'f', 'g', 'z', 'x', ' ', '\u{a0}', '\u{3000}', '\u{2003}', '\u{e9}', '|', '.', '-', '+', 'e', '_', '\t', 'b', '\u{1F600}'];

pub fn soup_token(ch: &mut Choices) -> String {
    match ch.weighted(&[10, 6, 1, 1]) {
        3 => {
            // a string of digits, blanks (ASCII and not) and junk: what the text-parsing words receive
            let n = ch.below(7);
            let s: String = (0..n).map(|_| STR_ALPHABET[ch.below(STR_ALPHABET.len())]).collect();
            format!("\"{}\"", s)
        }
        0 => {
            let n = WORDS.with(|w| w.len());
            let i = ch.below(n);
            let w = WORDS.with(|w| w[i].0.clone());
            if ALLOC_LAST.contains(&w.as_str()) {
                // the width is an allocation size (the statement's proviso: modest).  In a soup it cannot be kept
                // modest by construction - a retried or shifted stack turns any integer into the width - so the two
                // words are left to the systematic grid (modest widths) and to C05 / C07
                "8 u8!".to_string()
            } else {
                w
            }
        }
        1 => LITS[ch.below(LITS.len())].to_string(),
        _ => FRAGS[ch.below(FRAGS.len())].to_string(),
    }
}

/// programs for the debugger-session scenario: paused half-way with next(), interrupted by other submissions
const SESSION_PROGS: [&str; 12] = [
    "3 0 do I drop loop",
    "[ 1 2 3 ] foreach I drop loop",
    "2 0 do 2 0 do J drop loop loop",
    "begin 1 drop false until",
    ": w 1 2 + ; w w drop drop",
    "[ 1 [ 2 3 ] 4 ] drop",
    "{ 1 \"a\" } foreach I drop drop loop",
    ": lw local a local b a b + ; 1 2 lw drop",
    "|ff 00| open-bitstr u8 drop close-bitstr",
    "1 2 3 rot over swap drop drop drop drop",
    "0 var sv 5 ! sv sv drop",
    "3 case 1 of 10 endof 3 of 30 endof drop 0 endcase drop",
];
const SESSION_FAIL: [&str; 14] = [
    "1 0 /", "drop", "nosuchword", "1 if", "\"s\" 1 +", "I", "#( 1 0 / #)", "[ 1 ] 5 nth",
    // rejected after build-time code has run: its stack is discarded, what it logged is not
    "#( 1 2 swap nosuchword #)", "#( 1 2 3 rot drop 1 0 / #)", "enum E 1 2 swap nosuchword endenum", "#( [ 1 2 ] foreach I loop nosuchword #)", "#( : mw local a a ; 5 mw 2 0 do I loop nosuchword #)", "1 2 #( 3 4 over nip rot nosuchword #)",
];
const SESSION_AFTER: [&str; 10] = ["I", "J", "K", "I J K", "[ 1 ] foreach I loop", "] ", "depth", "close-bitstr", "1 local q", "loop"];

/// a debugger-like session: compile a program, step into it, interrupt it with other submissions, go on
fn session_case(ch: &mut Choices, ctx: &CaseCtx) -> CaseOut {
    let mut out = CaseOut::default();
    let mut xs = BASE.with(|b| b.clone());
    limits(&mut xs);
    if ch.bool() {
        xs.set_recording_enabled(true);
    }
    let mut log: Vec<String> = Vec::new();
    let nsteps = 3 + ch.below(8);
    for _ in 0..nsteps {
        let r: Result<(), String> = match ch.weighted(&[4, 4, 3, 3, 2, 2]) {
            0 => {
                let p = SESSION_PROGS[ch.below(SESSION_PROGS.len())];
                log.push(format!("compile {:?}", p));
                guard(|| {
                    let _ = xs.compile(p);
                })
            }
            1 => {
                let n = 1 + ch.below(12);
                log.push(format!("next x{}", n));
                guard(|| {
                    for _ in 0..n {
                        if xs.next().is_err() {
                            break;
                        }
                    }
                })
            }
            2 => {
                let p = SESSION_FAIL[ch.below(SESSION_FAIL.len())];
                let ev = ch.bool();
                log.push(format!("{} {:?}", if ev { "eval" } else { "compile" }, p));
                guard(|| {
                    let _ = if ev { xs.eval(p) } else { xs.compile(p) };
                })
            }
            3 => {
                let p = SESSION_AFTER[ch.below(SESSION_AFTER.len())];
                let ev = ch.bool();
                log.push(format!("{} {:?}", if ev { "eval" } else { "compile" }, p));
                guard(|| {
                    let _ = if ev { xs.eval(p) } else { xs.compile(p) };
                })
            }
            4 => {
                log.push("run".into());
                guard(|| {
                    let _ = xs.run();
                })
            }
            _ => {
                let n = 1 + ch.below(12);
                log.push(format!("rnext x{}", n));
                guard(|| {
                    for _ in 0..n {
                        if xs.rnext().is_err() {
                            break;
                        }
                    }
                })
            }
        };
        let r = r.and_then(|_| {
            let res: Xresult = Ok(());
            after_calls_light(&mut xs, &res)
        });
        if let Err(pm) = r {
            out.fail(format!("panic: {} [session]", pm), log.join("\n"));
            break;
        }
        limits(&mut xs);
    }
    out.nontrivial = true;
    out.class("debugger-session");
    out.hash = hash_of(&log);
    if ctx.want_render || out.fail.is_some() {
        out.render = Some(log.join("\n"));
    }
    out
}

pub fn case(ch: &mut Choices, ctx: &CaseCtx) -> CaseOut {
    let mut out = CaseOut::default();
    if ch.direct {
        return sys_case(ch, ctx);
    }
    if ch.chance(1, 3) {
        return session_case(ch, ctx);
    }
    let mut xs = BASE.with(|b| b.clone());
    limits(&mut xs);
    let ncalls = 1 + ch.below(6);
    let mut log: Vec<String> = Vec::new();
    if ch.chance(1, 3) {
        xs.set_recording_enabled(true);
        log.push("set_recording_enabled(true)".into());
    }
    let mut total_tokens = 0usize;
    let mut last_word = String::new();
    for _ in 0..ncalls {
        let call = ch.weighted(&[8, 4, 3, 3, 2, 1, 1, 2]);
        let r: Result<(), String> = match call {
            0 | 1 => {
                let nt = 1 + ch.below(if call == 0 { 12 } else { 8 });
                let toks: Vec<String> = (0..nt).map(|_| soup_token(ch)).collect();
                total_tokens += nt;
                last_word = toks.last().cloned().unwrap_or_default();
                // (sometimes the tokens run at build time, in a block or an enum body that is then rejected)
                let src = match ch.weighted(&[12, 2, 1, 1]) {
                    0 => toks.join(" "),
                    1 => format!("#( {} nosuchword #)", toks.join(" ")),
                    2 => format!("#( {} #)", toks.join(" ")),
                    _ => format!("enum E {} nosuchword endenum", toks.join(" ")),
                };
                log.push(format!("{} {:?}", if call == 0 { "eval" } else { "compile" }, src));
                let res = guard(|| if call == 0 { xs.eval(&src) } else { xs.compile(&src) });
                match res {
                    Ok(r) => after_calls_light(&mut xs, &r),
                    Err(pm) => Err(pm),
                }
            }
            2 => {
                log.push("run".into());
                match guard(|| xs.run()) {
                    Ok(r) => after_calls_light(&mut xs, &r),
                    Err(pm) => Err(pm),
                }
            }
            3 => {
                let n = 1 + ch.below(30);
                log.push(format!("next x{}", n));
                guard(|| {
                    for _ in 0..n {
                        if xs.next().is_err() {
                            break;
                        }
                    }
                })
            }
            4 => {
                let n = 1 + ch.below(30);
                log.push(format!("rnext x{}", n));
                guard(|| {
                    for _ in 0..n {
                        if xs.rnext().is_err() {
                            break;
                        }
                    }
                })
            }
            7 => {
                // the embedding API: data stack access, variables, binary input, file submissions
                let which = ch.below(8);
                let nclasses = CLASSES.with(|c| c.len());
                let ci = ch.below(nclasses);
                let (cname, cval) = CLASSES.with(|c| (c[ci].0, c[ci].1.clone()));
                log.push(format!("api call #{} ({})", which, cname));
                guard(|| match which {
                    0 => {
                        let _ = xs.push_data(cval.clone());
                    }
                    1 => {
                        let _ = xs.pop_data();
                        let _ = xs.top_data().map(|c| c.clone());
                    }
                    2 => {
                        if let Cell::Bitstr(b) = cval.value() {
                            let _ = xs.set_binary_input(b.clone());
                        }
                    }
                    3 => {
                        let _ = xs.eval_file(Xstr::from("/nonexistent/verif.xeh"));
                        let _ = xs.compile_file(Xstr::from("/nonexistent/verif.xeh"));
                    }
                    4 => {
                        let r = xs.defvar(Xstr::from("apivar"), cval.clone());
                        if let Ok(cref) = r {
                            let _ = xs.get_var(cref).map(|c| c.clone());
                            let _ = xs.set_var(cref, Cell::Nil);
                            let _ = xs.update_var(cref, |old| Ok(old.clone()));
                        }
                        let _ = xs.get_var(CellRef::heap_ref(usize::MAX - 1)).map(|c| c.clone());
                        let _ = xs.set_var(CellRef::heap_ref(1 << 40), cval.clone());
                    }
                    5 => {
                        let _ = xs.get_var_value("input").map(|c| c.clone());
                        let _ = xs.get_var_value("no-such-variable").map(|c| c.clone());
                        let _ = xs.word_list().len();
                    }
                    6 => {
                        let _ = xs.intercept_output(false);
                        let _ = xs.intercept_output(true);
                        let _ = xs.read_stdout();
                    }
                    _ => {
                        let c = xs.clone();
                        drop(c);
                        let _ = xs.get_data(3).cloned();
                        let _ = xs.data_depth();
                    }
                })
            }
            5 => {
                let on = ch.bool();
                log.push(format!("set_recording_enabled({})", on));
                xs.set_recording_enabled(on);
                Ok(())
            }
            _ => {
                log.push("pretty_error / format_cell".into());
                let res: Xresult = Ok(());
                after_calls(&mut xs, &res)
            }
        };
        if let Err(pm) = r {
            out.fail(format!("panic: {} [soup]", pm), format!("last token {:?}\n{}", last_word, log.join("\n")));
            break;
        }
        limits(&mut xs);
    }
    out.nontrivial = total_tokens >= 3;
    out.class("token-soup");
    out.hash = hash_of(&log);
    if ctx.want_render || out.fail.is_some() {
        out.render = Some(log.join("\n"));
    }
    out
}

fn after_calls_light(xs: &mut Xstate, res: &Xresult) -> Result<(), String> {
    guard(|| {
        let _ = xs.pretty_error();
        if let Err(e) = res {
            let _ = format!("{}", e);
        }
        if let Some(top) = xs.get_data(0).cloned() {
            let _ = xs.format_cell_safe(&top);
        }
    })
}
