// C11 — meta-evaluation is sealed and equivalent to inlining its result.
use crate::common::*;
use crate::val::{self, V};
use crate::xs::{self, Kind};
use crate::PropDef;
use xeh::prelude::*;

pub const DEF: PropDef = PropDef {
    id: "C11",
    rule: "constant expressions e (literals of every printable type, arithmetic, stack words, vector/map builders, length/reverse, local word definitions used inside the block, nested #( #) blocks, const definitions and uses) yielding 0-4 values, placed in a hole of a host program: top level, inside [ ], { }, ^{ ^}, inside `: w .. ;` called 0-3 times, inside do-loop / if bodies, inside another meta block; the host pushes values and defines a variable before the hole. \
Oracles: (1) inlining - the values of e are obtained by running `#( e #)` alone (and, when e has no const, cross-checked against e evaluated as ordinary code), rendered as literals in the order the suite pins (last result first; natural order directly inside another block); host[#( e #)] and host[literals] must agree on result, stack, variables, stdout and on the dictionary except the constants e defines; code length = host[empty hole] + number of results. \
(2) sealing - blocks that pop more than they push, read/write/create variables (var, let), or define a word used after the block must fail with the underflow / constant-context / unknown-word error and leave stack, variables and dictionary as before. \
(2b) const chains - a helper word, a constant and 1-3 redefinitions of it at the same level or in nested blocks, with the values known to the generator: after the block the constant holds the last value, a second constant is untouched. \
(3) compile is inert - compile(host) leaves visible stack, heap and stdout unchanged and compile+run equals eval. \
Non-trivial = e yields >=1 value and the hole is not at top level, or e contains a definition / nested block / const; distinct = hash of host and e",
    assumptions: &[
        "values without an exact source form are not generated (reals only as literals passed through)",
        "a block directly inside another block shares that block's stack (pinned by test_meta_stack); nested blocks are generated self-contained",
    ],
    max_len: 300,
    quick_cases: 120_000,
    thorough_cases: 1_500_000,
    case,
    systematic: None,
    both_profiles_quick: false,
    max_shrink_iters: 6000,
    exhaustive_note: None,
};

struct E {
    text: String,
    has_const: bool,
    has_def: bool,
    has_nested: bool,
    consts: Vec<String>,
}

fn atom(ch: &mut Choices) -> String {
    let a = atom0(ch);
    // tagged values: the tags are part of the value the block yields
    match ch.weighted(&[8, 1, 1]) {
        0 => a,
        1 => format!("{} {} {} insert-tag", a, atom0(ch), ["\"unit\"", "\"a\"", "3"][ch.below(3)]),
        _ => format!("{} ^{{ {} \"t\" {} \"u\" ^}}", a, atom0(ch), ch.range(0, 9)),
    }
}

fn atom0(ch: &mut Choices) -> String {
    match ch.weighted(&[8, 3, 2, 2, 2, 1, 1, 1]) {
        0 => format!("{}", ch.range(-9, 99)),
        1 => xs::str_lit(val::STRS[ch.below(val::STRS.len())]),
        2 => {
            let n = ch.below(13);
            xs::bits_lit(&(0..n).map(|_| ch.bool()).collect::<Vec<_>>())
        }
        3 => format!("[ {} {} ]", ch.range(0, 9), ch.range(0, 9)),
        4 => format!("{{ {} \"k\" }}", ch.range(0, 9)),
        5 => ["true", "false"][ch.below(2)].to_string(),
        6 => "nil".to_string(),
        _ => {
            let r = ["1.5", "0.25", "-2.0", "100.5", "0.0"];
            if ch.bool() {
                r[ch.below(r.len())].to_string()
            } else {
                format!("{} {} {}", r[ch.below(r.len())], r[ch.below(r.len())], ["+", "-", "*"][ch.below(3)])
            }
        }
    }
}

/// an expression leaving exactly one value
fn one(ch: &mut Choices, e: &mut E, depth: usize, uid: &mut usize) -> String {
    let deep = depth > 0;
    match ch.weighted(&[10, if deep { 5 } else { 0 }, 3, 2, if deep { 3 } else { 0 }, if deep { 3 } else { 0 }, if deep { 3 } else { 0 }, 2]) {
        0 => atom(ch),
        1 => {
            let a = int1(ch, e, depth - 1, uid);
            let b = int1(ch, e, depth - 1, uid);
            format!("{} {} {}", a, b, ["+", "-", "*", "max"][ch.below(4)])
        }
        2 => format!("{} {} swap drop", atom(ch), atom(ch)),
        3 => format!("[ {} {} {} ] {}", atom(ch), atom(ch), atom(ch), ["length", "reverse", "0 nth"][ch.below(3)]),
        4 => {
            // a word defined and used inside the block
            *uid += 1;
            e.has_def = true;
            let a = int1(ch, e, depth - 1, uid);
            format!(": sq{u} dup * {} + ; {} sq{u}", ch.range(0, 5), a, u = *uid)
        }
        5 => {
            e.has_nested = true;
            let inner = one(ch, e, depth - 1, uid);
            format!("#( {} #)", inner)
        }
        6 => {
            *uid += 1;
            e.has_const = true;
            let name = format!("KC{}", *uid);
            e.consts.push(name.clone());
            let a = one(ch, e, depth - 1, uid);
            format!("{} const {n} {n}", a, n = name)
        }
        _ => format!("{} dup drop", atom(ch)),
    }
}

fn int1(ch: &mut Choices, e: &mut E, depth: usize, uid: &mut usize) -> String {
    if depth == 0 || ch.chance(2, 3) {
        format!("{}", ch.range(-9, 20))
    } else {
        match ch.below(3) {
            0 => {
                let a = int1(ch, e, depth - 1, uid);
                let b = int1(ch, e, depth - 1, uid);
                format!("{} {} {}", a, b, ["+", "*", "min"][ch.below(3)])
            }
            1 => {
                e.has_nested = true;
                format!("#( {} #)", int1(ch, e, depth - 1, uid))
            }
            _ => format!("[ 1 2 3 ] length {} +", ch.range(0, 5)),
        }
    }
}

fn gen_e(ch: &mut Choices, nvals: usize, uid: &mut usize) -> E {
    let mut e = E { text: String::new(), has_const: false, has_def: false, has_nested: false, consts: Vec::new() };
    let mut parts = Vec::new();
    for _ in 0..nvals {
        let p = one(ch, &mut e, 2, uid);
        parts.push(p);
    }
    if nvals == 0 && ch.bool() {
        parts.push("1 drop".to_string());
    }
    e.text = parts.join(" ");
    e
}

struct Obs {
    kind: Kind,
    res: String,
    stack: Vec<Cell>,
    vars: Vec<(String, String)>,
    stdout: String,
    words: Vec<String>,
    code_len: usize,
    heap: String,
}

fn observe(xs: &mut Xstate, r: &Xresult) -> Obs {
    Obs {
        kind: xs::kind_res(r),
        res: xs::render_res(r),
        stack: xs::stack(xs),
        vars: xs::vars(xs),
        stdout: xs::take_stdout(xs),
        words: xs.word_list().iter().map(|w| w.to_string()).collect(),
        code_len: xs::section_num(xs, "code_len"),
        heap: xs::section(xs, "heap"),
    }
}

fn run_eval(base: &Xstate, src: &str) -> Result<Obs, String> {
    let mut xs = base.clone();
    let r = guard(|| xs.eval(src))?;
    Ok(observe(&mut xs, &r))
}

fn stack_str(s: &[Cell]) -> String {
    s.iter().map(xs::render).collect::<Vec<_>>().join(" | ")
}

pub fn case(ch: &mut Choices, ctx: &CaseCtx) -> CaseOut {
    let mut out = CaseOut::default();
    let mut uid = 0usize;
    let mut base = xs::fresh();
    base.set_insn_limit(Some(100_000)).unwrap();
    // host prelude: values on the stack and a variable
    let npre = ch.below(3);
    let pre: String = (0..npre).map(|i| format!("{}", 70 + i)).collect::<Vec<_>>().join(" ");
    // (words defined outside any block that touch the variable: calling them from a block must be refused too)
    let pre_src = format!("{} 7 var gv : getgv gv ; : setgv 1 ! gv ; : getgv2 getgv 1 + ; late lategv : uselate lategv ; 5 var lategv", pre);
    if !matches!(guard(|| base.eval(&pre_src)), Ok(Ok(()))) {
        out.fail("prelude failed", pre_src);
        return out;
    }
    let _ = base.read_stdout();
    let mode = ch.weighted(&[10, 3, 3, 2]);
    if mode == 1 {
        sealing(ch, ctx, &base, npre, &mut out);
        return out;
    }
    if mode == 2 {
        blind(ch, ctx, &pre_src[pre.len()..], &mut out);
        return out;
    }
    if mode == 3 {
        const_chain(ch, ctx, &mut out);
        return out;
    }
    // ---- hole position -------------------------------------------------------------
    let host = ch.below(10);
    let nvals = match host {
        2 | 3 => 1,
        _ => ch.below(4) + if ch.chance(1, 6) { 0 } else { 1 },
    }
    .min(4);
    let nvals = if host == 2 || host == 3 { 1 } else { nvals };
    let e = gen_e(ch, nvals, &mut uid);
    // values of e: run `#( e #)` alone on a fresh interpreter
    let alone = match run_eval(&xs::fresh(), &format!("#( {} #)", e.text)) {
        Ok(o) => o,
        Err(pm) => {
            out.fail(format!("panic: {}", pm), format!("#( {} #)", e.text));
            return out;
        }
    };
    if alone.kind != Kind::Ok {
        out.fail("a well-formed constant expression failed in a meta block", format!("#( {} #) -> {}", e.text, alone.res));
        out.render = Some(e.text.clone());
        return out;
    }
    if alone.stack.len() != nvals {
        out.fail("a constant expression yielded the wrong number of values", format!("#( {} #) -> [{}]", e.text, stack_str(&alone.stack)));
        return out;
    }
    // cross-check with e evaluated as ordinary code (natural order), when it has no const
    if !e.has_const {
        match run_eval(&xs::fresh(), &e.text) {
            Ok(o) => {
                let rev: Vec<&Cell> = alone.stack.iter().rev().collect();
                if o.kind != Kind::Ok || o.stack.len() != rev.len() || o.stack.iter().zip(rev.iter()).any(|(a, b)| a != *b || !val::veq_tags(&val::of_cell(a), &val::of_cell(b))) {
                    out.fail("a meta block computes other values than the same code evaluated normally", format!("e: {}\nmeta (last first): [{}]\nnormal: [{}] {}", e.text, stack_str(&alone.stack), stack_str(&o.stack), o.res));
                    return out;
                }
            }
            Err(pm) => {
                out.fail(format!("panic: {}", pm), e.text.clone());
                return out;
            }
        }
    }
    let lits_emit: Vec<String> = alone.stack.iter().map(|c| val::src(&val::of_cell(c))).collect(); // bottom..top = last result first
    let lits_natural: Vec<String> = lits_emit.iter().rev().cloned().collect();
    let calls = ch.below(4);
    let block = format!("#( {} #)", e.text);
    let (h_block, h_lits, h_empty): (String, String, String);
    let mk = |hole: &str, host: usize, calls: usize| -> String {
        match host {
            0 | 1 => format!("1 {} 2", hole),
            2 => format!("{{ {} \"k\" }}", hole),
            3 => format!("5 ^{{ {} \"t\" ^}}", hole),
            4 => format!("[ 9 {} 8 ]", hole),
            5 => format!(": w {} ; {}", hole, vec!["w"; calls].join(" ")),
            6 => format!("2 0 do {} loop", hole),
            7 => format!("true if {} then", hole),
            8 => format!("#( 100 {} 200 #)", hole),
            _ => format!(": w2 [ {} ] ; w2 w2", hole),
        }
    };
    let in_meta = host == 8;
    h_block = mk(&block, host, calls);
    h_lits = mk(&if in_meta { lits_natural.join(" ") } else { lits_emit.join(" ") }, host, calls);
    h_empty = mk("", host, calls);
    let render = format!("host with block : {}\nhost with values: {}", h_block, h_lits);
    let host7_twice_ok = true;
    let (ob, ol) = match (run_eval(&base, &h_block), run_eval(&base, &h_lits)) {
        (Ok(a), Ok(b)) => (a, b),
        (Err(pm), _) | (_, Err(pm)) => {
            out.fail(format!("panic: {}", pm), render.clone());
            return out;
        }
    };
    let hostname = ["top", "top", "map-builder", "tag-builder", "vec-builder", "definition", "loop-body", "if-body", "meta-block", "vec-in-definition"][host];
    let fail = |out: &mut CaseOut, what: &str, detail: String| {
        out.fail(format!("{}: {}", hostname, what), format!("{}\n{}", detail, render));
    };
    if ob.kind != ol.kind || ob.res != ol.res {
        fail(&mut out, "result differs from the inlined program", format!("block: {}  inlined: {}", ob.res, ol.res));
    } else if ob.stack.len() != ol.stack.len() || ob.stack.iter().zip(ol.stack.iter()).any(|(a, b)| a != b || !val::veq_tags(&val::of_cell(a), &val::of_cell(b))) {
        fail(&mut out, "stack differs from the inlined program", format!("block: [{}]\ninlined: [{}]", stack_str(&ob.stack), stack_str(&ol.stack)));
    } else if ob.stdout != ol.stdout {
        fail(&mut out, "output differs from the inlined program", format!("{:?} vs {:?}", ob.stdout, ol.stdout));
    } else {
        // variables and constants: the block may add exactly the constants it defined
        let extra_vars: Vec<&(String, String)> = ob.vars.iter().filter(|v| !ol.vars.contains(v)).collect();
        let missing: Vec<&(String, String)> = ol.vars.iter().filter(|v| !ob.vars.contains(v)).collect();
        let extra_words: Vec<&String> = ob.words.iter().filter(|w| !ol.words.contains(w)).collect();
        let consts_ok = extra_vars.iter().all(|(n, _)| e.consts.contains(n)) && extra_words.iter().all(|w| e.consts.contains(w)) && e.consts.iter().all(|c| ob.words.contains(c));
        if !missing.is_empty() || !consts_ok || ob.words.len() != ol.words.len() + extra_words.len() {
            fail(&mut out, "dictionary/variables differ beyond the constants the block defined", format!("extra words {:?} extra vars {:?} missing {:?} (block consts {:?})", extra_words, extra_vars, missing, e.consts));
        }
    }
    // code length: host[block] = host[empty] + one load per result
    if out.fail.is_none() && !in_meta && ob.kind == Kind::Ok && host7_twice_ok {
        let mut xe = base.clone();
        let mut xb = base.clone();
        let (re, rb) = (guard(|| xe.compile(&h_empty)), guard(|| xb.compile(&h_block)));
        if let (Ok(Ok(())), Ok(Ok(()))) = (&re, &rb) {
            let (le, lb) = (xs::section_num(&xe, "code_len"), xs::section_num(&xb, "code_len"));
            let holes = 1;
            if lb != le + holes * nvals {
                fail(&mut out, "code remains after the block (length is not host + one load per result)", format!("host[empty]={} host[block]={} results={}", le, lb, nvals));
            }
        }
    }
    // (3) compile is inert; compile+run == eval
    if out.fail.is_none() {
        let mut xc = base.clone();
        let before = (xs::render_stack(&xc), xs::section(&xc, "heap"), xs::vars(&xc));
        match guard(|| xc.compile(&h_block)) {
            Ok(Ok(())) => {
                let after = (xs::render_stack(&xc), xs::section(&xc, "heap"), xs::vars(&xc));
                let printed = xs::take_stdout(&mut xc);
                let vars_same = before.2.iter().all(|v| after.2.contains(v));
                if before.0 != after.0 || before.1 != after.1 || !vars_same || !printed.is_empty() {
                    fail(&mut out, "compile changed the stack, a variable or printed", format!("stack [{}] -> [{}]; heap {} -> {}; printed {:?}", before.0, after.0, before.1, after.1, printed));
                } else {
                    let r = guard(|| xc.run());
                    match r {
                        Ok(r) => {
                            let oc = observe(&mut xc, &r);
                            if oc.res != ob.res || oc.stack.len() != ob.stack.len() || oc.stack.iter().zip(ob.stack.iter()).any(|(a, b)| a != b || !val::veq_tags(&val::of_cell(a), &val::of_cell(b))) || oc.vars != ob.vars || oc.stdout != ob.stdout || oc.heap != ob.heap {
                                fail(&mut out, "compile followed by run differs from eval", format!("eval: {} [{}]\ncompile+run: {} [{}]", ob.res, stack_str(&ob.stack), oc.res, stack_str(&oc.stack)));
                            }
                        }
                        Err(pm) => fail(&mut out, &format!("panic: {}", pm), "run after compile".into()),
                    }
                }
            }
            Ok(Err(e2)) => {
                if ob.kind == Kind::Ok {
                    fail(&mut out, "compile rejected a program that eval accepts", xs::render_err(&e2));
                }
            }
            Err(pm) => fail(&mut out, &format!("panic: {}", pm), "compile".into()),
        }
    }
    let _ = ol.code_len;
    let _ = ob.code_len;
    out.nontrivial = (nvals >= 1 && host > 1) || e.has_def || e.has_nested || e.has_const;
    out.class(hostname);
    if e.has_def {
        out.class("definition-inside-block");
    }
    if e.has_nested {
        out.class("nested-block");
    }
    if e.has_const {
        out.class("const");
    }
    if nvals >= 2 {
        out.class("several-results");
    }
    out.hash = hash_of(&(h_block.clone(), npre));
    if ctx.want_render || out.fail.is_some() {
        out.render = Some(render);
    }
    out
}

fn sealing(ch: &mut Choices, ctx: &CaseCtx, base: &Xstate, npre: usize, out: &mut CaseOut) {
    let variants: [(&str, Kind, &str); 18] = [
        ("#( getgv #)", Kind::ConstContext, "read-variable-through-outer-word"),
        ("#( getgv2 1 + #)", Kind::ConstContext, "read-variable-through-outer-word"),
        ("#( 5 setgv #)", Kind::ConstContext, "write-variable-through-outer-word"),
        ("#( uselate #)", Kind::ConstContext, "read-variable-through-late-word"),
        ("#( : inner getgv ; inner #)", Kind::ConstContext, "read-variable-through-outer-word"),
        (": kk #( getgv #) ; kk", Kind::ConstContext, "read-variable-through-outer-word"),
        ("#( drop #)", Kind::Underflow, "pop-outer-stack"),
        ("#( 1 drop drop #)", Kind::Underflow, "pop-outer-stack"),
        ("#( swap #)", Kind::Underflow, "pop-outer-stack"),
        ("#( 1 2 + + #)", Kind::Underflow, "pop-outer-stack"),
        ("#( gv #)", Kind::ConstContext, "read-variable"),
        ("#( 1 ! gv #)", Kind::ConstContext, "write-variable"),
        ("#( 2 var nv #)", Kind::ConstContext, "create-variable"),
        ("#( [ 1 ] let [ lv ] #)", Kind::ConstContext, "let-variable"),
        ("#( : mw 1 ; mw #) mw", Kind::UnknownWord, "word-used-after-block"),
        ("#( : mw 1 ; #) 5 mw", Kind::UnknownWord, "word-used-after-block"),
        ("#( : mw gv ; mw #)", Kind::ConstContext, "read-variable-through-word"),
        ("#( depth #)", Kind::Ok, "depth-inside-block"),
    ];
    let (src, want, name) = variants[ch.below(variants.len())];
    let wrap = ch.below(4);
    let full = match wrap {
        0 => src.to_string(),
        1 => format!("[ 1 {} ]", src),
        2 => format!(": sw {} ; sw", src),
        _ => format!("1 2 {} 3", src),
    };
    let before = (xs::render_stack(base), xs::vars(base), base.word_list().len());
    let o = match run_eval(base, &full) {
        Ok(o) => o,
        Err(pm) => {
            out.fail(format!("panic: {}", pm), full);
            return;
        }
    };
    let fail = |out: &mut CaseOut, what: &str, detail: String| {
        out.fail(format!("sealing/{}: {}", name, what), format!("{}\nsource: {} (outer stack had {} items)", detail, full, npre));
    };
    if want == Kind::Ok {
        // `depth` inside a block sees only the block's own stack: the program must behave as if the block were the literal 0
        let twin = match run_eval(base, &full.replace(src, "0")) {
            Ok(t) => t,
            Err(pm) => {
                out.fail(format!("panic: {}", pm), full.clone());
                return;
            }
        };
        if o.kind != Kind::Ok || stack_str(&o.stack) != stack_str(&twin.stack) {
            fail(out, "the block saw the outer stack", format!("result {} [{}] expected [{}]", o.res, stack_str(&o.stack), stack_str(&twin.stack)));
        }
    } else {
        // creating a variable under an open structure is refused for that reason first: either refusal seals the block
        let alt_ok = (name == "create-variable" || name == "let-variable") && o.kind == Kind::ControlFlow && wrap != 0 && wrap != 3;
        if o.kind != want && !alt_ok {
            fail(out, "did not fail the way a sealed block must", format!("got {} expected {:?}", o.res, want));
        } else {
            let after = (stack_str(&o.stack), o.vars.clone(), o.words.len());
            if after.0 != before.0 || after.1 != before.1 || after.2 != before.2 {
                fail(out, "the failing block changed the outer stack, a variable or the dictionary", format!("stack [{}] -> [{}]; words {} -> {}", before.0, after.0, before.2, after.2));
            }
        }
    }
    out.nontrivial = true;
    out.class("sealing");
    out.class(name);
    out.hash = hash_of(&(full.clone(), npre));
    if ctx.want_render || out.fail.is_some() {
        out.render = Some(full);
    }
}

/// sealing, metamorphic form: a block made of arbitrary tokens (any dictionary word, counts, literals) behaves the same
/// whatever the surrounding data stack holds - same result, output, variables, dictionary, and the surrounding
/// items stay where they were, below whatever the program left
fn blind(ch: &mut Choices, ctx: &CaseCtx, prelude: &str, out: &mut CaseOut) {
    // (the surrounding items are pushed through the API so that both interpreters hold exactly the same code, heap
    // and dictionary - `see` prints code addresses)
    let outer_cells: Vec<Cell> = (0..ch.below(4) + 1)
        .map(|i| if ch.chance(1, 4) { Cell::from(vec![Cell::Int(70 + i as i128)].into_iter().collect::<Xvec>()) } else { Cell::Int(70 + i as i128) })
        .collect();
    let outer: Vec<String> = outer_cells.iter().map(xs::render).collect();
    let mut without = xs::fresh();
    without.set_insn_limit(Some(100_000)).unwrap();
    if !matches!(guard(|| without.eval(prelude)), Ok(Ok(()))) {
        out.fail("prelude failed", prelude.to_string());
        return;
    }
    let _ = without.read_stdout();
    let mut with = without.clone();
    for c in &outer_cells {
        with.push_data(c.clone()).unwrap();
    }
    let words: Vec<String> = with.word_list().iter().map(|w| w.to_string()).collect();
    const STACKY: [&str; 14] = ["collect", "drop", "swap", "rot", "over", "dup", "nip", "depth", "unbox", "+", "concat", "length", "get", "nth"];
    // (words that end the block are left out: what follows them runs in the surrounding program, by design)
    const SKIP: [&str; 11] = ["bye", "exit", "include", "require", "random", "random-bits", "exec-piped", "read-all", "#)", "~)", "endenum"];
    let n = ch.below(6) + 1;
    let mut toks = Vec::new();
    for _ in 0..n {
        toks.push(match ch.weighted(&[4, 2, 4, 3]) {
            0 => format!("{}", ch.range(0, 5)),
            1 => atom0(ch),
            2 => STACKY[ch.below(STACKY.len())].to_string(),
            _ => {
                let w = &words[ch.below(words.len())];
                if SKIP.contains(&w.as_str()) || w.contains("write") { "dup".to_string() } else { w.clone() }
            }
        });
    }
    let block = format!("#( {} #)", toks.join(" "));
    let full = match ch.below(4) {
        0 => block.clone(),
        1 => format!("[ 1 {} ]", block),
        2 => format!(": sw {} ; sw", block),
        _ => format!("1 2 {} 3", block),
    };
    let (a, b) = match (run_eval(&with, &full), run_eval(&without, &full)) {
        (Ok(a), Ok(b)) => (a, b),
        (Err(pm), _) | (_, Err(pm)) => {
            out.fail(format!("panic: {}", pm), full);
            return;
        }
    };
    let no = outer.len();
    let base_items = stack_str(&xs::stack(&with));
    let fail = |out: &mut CaseOut, what: &str, detail: String| {
        out.fail(format!("sealing/blind: {}", what), format!("{}\nsource: {}\nouter stack: {}", detail, full, outer.join(" ")));
    };
    if a.kind != b.kind || a.res != b.res {
        fail(out, "the outcome depends on the surrounding stack", format!("with items: {}   without: {}", a.res, b.res));
    } else if a.stack.len() != b.stack.len() + no || stack_str(&a.stack[..no]) != base_items || stack_str(&a.stack[no..]) != stack_str(&b.stack) || a.stack[no..].iter().zip(b.stack.iter()).any(|(x, y)| !val::veq_tags(&val::of_cell(x), &val::of_cell(y))) {
        fail(out, "the surrounding items were read, moved or removed", format!("with items: [{}]   without: [{}]", stack_str(&a.stack), stack_str(&b.stack)));
    } else if a.stdout != b.stdout || a.vars != b.vars || a.words != b.words || a.heap != b.heap {
        fail(out, "output, variables or dictionary depend on the surrounding stack", format!("{:?} vs {:?}", a.stdout, b.stdout));
    }
    out.nontrivial = true;
    out.class("sealing");
    out.class("blind-to-outer-stack");
    if a.kind == Kind::Ok {
        out.class("blind-block-succeeds");
    }
    out.hash = hash_of(&(full.clone(), no));
    if ctx.want_render || out.fail.is_some() {
        out.render = Some(full);
    }
}

/// constants redefined along a chain of blocks, with the values known to the generator: a helper word defined in the
/// enclosing block, a constant, and 1-3 redefinitions of it at the same level or in nested blocks (each computed from
/// the current value); after the block the constant must hold the last value, an untouched second constant its own
fn const_chain(ch: &mut Choices, ctx: &CaseCtx, out: &mut CaseOut) {
    let helper = ch.chance(2, 3);
    let hk = ch.range(1, 9) as i128;
    let mut n = ch.range(-20, 40) as i128;
    let m = ch.range(100, 120) as i128;
    let mut text = String::from("#( ");
    if helper {
        text.push_str(&format!(": hk {} + ; ", hk));
    }
    let m_first = ch.bool();
    if m_first {
        text.push_str(&format!("{} const cm ", m));
    }
    text.push_str(&format!("{} const cn ", n));
    if !m_first {
        text.push_str(&format!("{} const cm ", m));
    }
    let steps = 1 + ch.below(3);
    let mut nested_any = false;
    for _ in 0..steps {
        let (expr, val) = match ch.weighted(&[3, if helper { 3 } else { 0 }, 1]) {
            0 => {
                let k = ch.range(1, 9) as i128;
                (format!("cn {} *", k), n * k)
            }
            1 => ("cn hk".to_string(), n + hk),
            _ => {
                let k = ch.range(-5, 5) as i128;
                (format!("{}", k), k)
            }
        };
        n = val;
        if ch.bool() {
            nested_any = true;
            text.push_str(&format!("#( {} const cn #) ", expr));
        } else {
            text.push_str(&format!("{} const cn ", expr));
        }
    }
    text.push_str("#) cn cm");
    let full = match ch.below(3) {
        0 => text.clone(),
        1 => format!(": cf {} ; cf", text),
        _ => format!("[ {} ]", text),
    };
    let compile_style = ch.bool();
    let mut xs = xs::fresh();
    xs.set_insn_limit(Some(100_000)).unwrap();
    let r = guard(|| if compile_style { xs.compile(&full).and_then(|_| xs.run()) } else { xs.eval(&full) });
    let want = if full.starts_with('[') { format!("[ {} {} ]", n, m) } else { format!("{} | {}", n, m) };
    match r {
        Err(pm) => out.fail(format!("panic: {}", pm), full.clone()),
        Ok(Err(e)) => out.fail("const-chain: a well-formed chain of constant definitions failed", format!("{} -> {}", full, xs::render_err(&e))),
        Ok(Ok(())) => {
            let got = xs::render_stack(&xs);
            if got != want {
                out.fail("const-chain: a constant does not hold its latest definition after the block", format!("{}\nstack [{}] expected [{}]", full, got, want));
            }
        }
    }
    out.nontrivial = true;
    out.class("const-chain");
    if nested_any {
        out.class("const-redefined-in-nested-block");
    }
    out.hash = hash_of(&(full.clone(), compile_style));
    if ctx.want_render || out.fail.is_some() {
        out.render = Some(full);
    }
}
