// C07 — binary construction is the inverse of binary parsing.
use crate::common::*;
use crate::props::c05::{ref_decode_int, ref_decode_uint, ref_encode};
use crate::xs::{self, bits_lit, bits_of, str_lit};
use crate::PropDef;
use xeh::prelude::*;

pub const DEF: PropDef = PropDef {
    id: "C07",
    rule: "field lists (1-12 fields quick, 1-40 thorough) of Int{width 1..128, signed|unsigned(<=127), byte order, value incl. boundary values}, F32/F64{order, any bit pattern held in a variable}, Raw{0-40 bits, as a literal or as a slice cut out of a larger buffer at a non-zero bit offset}, Str{utf-8}, Bytes{ints inline, as a list, in nested vectors}; in (a) the field sequence is additionally bracketed into nested vectors at generated places; byte order switched between fields with big/little or fixed by the uNle!/uNbe! spellings. \
(a) `[ f1 .. fn ] >bitstr`; (b) output interception on and the same fields emitted over a generated partition into 1..n emit calls - evaluated directly or (1 in 4) compiled and driven like a debugger does: stepped to the end, stepped back part or all of the way (then output / output-length must be what was emitted before the source), and run again; then `open-bitstr` + the matching read word per field + remain. \
Oracle: product length = sum of widths and its bits = concatenation of a reference encoding of every field; parsed values = originals reduced to the field; remain = 0; `output` = product bit for bit, `output-length` = its length, for every partition. \
Non-trivial = a little-endian or multi-byte field starts off a byte boundary, or a partition with >=2 emits has an unaligned seam; distinct = hash of the field list and partition",
    assumptions: &[
        "unsigned fields are limited to 127 bits (`128 uint` is pinned by the suite to report overflow)",
        "a NaN float field is only required to come back as a NaN (f32 conversion may quieten the payload)",
    ],
    max_len: 700,
    quick_cases: 120_000,
    thorough_cases: 1_200_000,
    case,
    systematic: None,
    both_profiles_quick: false,
    max_shrink_iters: 8000,
    exhaustive_note: None,
};

#[derive(Clone, Debug, Hash)]
enum Field {
    Int { w: usize, signed: bool, big: bool, v: i128, fixed_spelling: u8 },
    F32 { big: bool, bits: u32, spelling: u8 },
    F64 { big: bool, bits: u64, spelling: u8 },
    Raw(Vec<bool>),
    /// a raw field that is a slice of a larger buffer, starting `u8` bits into it (never at bit 0 of its buffer)
    Sliced(Vec<bool>, u8),
    Str(String),
    Bytes(Vec<u8>, u8),
}

fn gen_value(ch: &mut Choices, w: usize) -> i128 {
    match ch.weighted(&[4, 3, 2, 2]) {
        0 => ch.range(-300, 300) as i128,
        1 => {
            // around powers of two and extremes of the width
            let k = ch.below(w.min(127) + 1);
            let base: i128 = if k >= 127 { i128::MAX } else { 1i128 << k };
            let d = ch.range(-2, 2) as i128;
            let v = base.wrapping_add(d);
            if ch.bool() {
                v.wrapping_neg()
            } else {
                v
            }
        }
        2 => *[0, -1, 1, i128::MAX, i128::MIN, i64::MAX as i128, i64::MIN as i128, u64::MAX as i128].get(ch.below(8)).unwrap(),
        _ => ch.u128() as i128,
    }
}

const TEXTS: [&str; 8] = ["", "a", "xeh", "héllo", "日本", "a\"b\\c", "tab\there", "\u{1F600}z"];

fn gen_field(ch: &mut Choices) -> Field {
    match ch.weighted(&[12, 2, 2, 3, 2, 2]) {
        0 => {
            let signed = ch.bool();
            let w = match ch.weighted(&[5, 3, 2]) {
                0 => 1 + ch.below(if signed { 128 } else { 127 }),
                1 => [8, 16, 32, 64][ch.below(4)],
                _ => [1, 2, 3, 5, 7, 9, 12, 13, 24, 33, 63, 65, 120, 121, 126, 127][ch.below(16)],
            };
            let v = gen_value(ch, w);
            let fixed_spelling = if [8, 16, 32, 64].contains(&w) { ch.below(4) as u8 } else { 0 };
            Field::Int { w, signed, big: ch.bool(), v, fixed_spelling }
        }
        1 => {
            let bits = match ch.below(4) {
                0 => [0u32, 0x8000_0000, 0x7f80_0000, 0xff80_0000, 0x7fc0_0000, 0x7f80_0001, 1, 0x0080_0000, 0x3f80_0000][ch.below(9)],
                _ => ch.raw(),
            };
            Field::F32 { big: ch.bool(), bits, spelling: ch.below(4) as u8 }
        }
        2 => {
            let bits = match ch.below(4) {
                0 => [0u64, 1 << 63, 0x7ff0 << 48, 0xfff0 << 48, 0x7ff8 << 48, (0x7ff0 << 48) | 1, 1, 0x3ff0 << 48][ch.below(8)],
                _ => ch.u64(),
            };
            Field::F64 { big: ch.bool(), bits, spelling: ch.below(4) as u8 }
        }
        3 => {
            let n = if ch.chance(1, 3) { 8 * ch.below(5) } else { ch.below(41) };
            let bits: Vec<bool> = (0..n).map(|_| ch.bool()).collect();
            if ch.chance(1, 3) {
                Field::Sliced(bits, 1 + ch.below(12) as u8)
            } else {
                Field::Raw(bits)
            }
        }
        4 => Field::Str(TEXTS[ch.below(TEXTS.len())].to_string()),
        _ => {
            let n = ch.below(6);
            Field::Bytes(ch.bytes(n), ch.below(4) as u8)
        }
    }
}

fn width(f: &Field) -> usize {
    match f {
        Field::Int { w, .. } => *w,
        Field::F32 { .. } => 32,
        Field::F64 { .. } => 64,
        Field::Raw(b) | Field::Sliced(b, _) => b.len(),
        Field::Str(s) => s.len() * 8,
        Field::Bytes(b, _) => b.len() * 8,
    }
}

fn bytes_bits(b: &[u8]) -> Vec<bool> {
    let mut v = Vec::new();
    for x in b {
        for k in (0..8).rev() {
            v.push((x >> k) & 1 == 1);
        }
    }
    v
}

fn encode(f: &Field) -> Vec<bool> {
    match f {
        Field::Int { w, big, v, .. } => ref_encode(*v, *w, *big),
        Field::F32 { big, bits, .. } => {
            let mut b = bits.to_be_bytes().to_vec();
            if !*big {
                b.reverse();
            }
            bytes_bits(&b)
        }
        Field::F64 { big, bits, .. } => {
            let mut b = bits.to_be_bytes().to_vec();
            if !*big {
                b.reverse();
            }
            bytes_bits(&b)
        }
        Field::Raw(b) | Field::Sliced(b, _) => b.clone(),
        Field::Str(s) => bytes_bits(s.as_bytes()),
        Field::Bytes(b, _) => bytes_bits(b),
    }
}

/// source text that leaves the packed field on the stack; `cur_big` is the interpreter's current byte order
fn pack_src(f: &Field, idx: usize, cur_big: &mut bool) -> String {
    let mut s = String::new();
    let mut order = |s: &mut String, big: bool, cur: &mut bool| {
        if *cur != big {
            s.push_str(if big { "big " } else { "little " });
            *cur = big;
        }
    };
    match f {
        Field::Int { w, signed, big, v, fixed_spelling } => {
            let t = if *signed { "i" } else { "u" };
            match fixed_spelling {
                1 => {
                    order(&mut s, *big, cur_big);
                    s.push_str(&format!("{} {}{}!", v, t, w));
                }
                2 => s.push_str(&format!("{} {}{}{}!", v, t, w, if *big { "be" } else { "le" })),
                _ => {
                    order(&mut s, *big, cur_big);
                    s.push_str(&format!("{} {} {}!", v, w, if *signed { "int" } else { "uint" }));
                }
            }
        }
        Field::F32 { big, spelling, .. } | Field::F64 { big, spelling, .. } => {
            let w = width(f);
            match spelling {
                1 => s.push_str(&format!("fv{} f{}{}!", idx, w, if *big { "be" } else { "le" })),
                2 => {
                    order(&mut s, *big, cur_big);
                    s.push_str(&format!("fv{} {} float!", idx, w));
                }
                _ => {
                    order(&mut s, *big, cur_big);
                    s.push_str(&format!("fv{} f{}!", idx, w));
                }
            }
        }
        Field::Raw(b) => s.push_str(&bits_lit(b)),
        Field::Sliced(b, off) => {
            // cut the field out of a larger literal: junk before (so the slice does not start at bit 0) and after
            let mut whole: Vec<bool> = (0..*off as usize).map(|i| i % 3 == 0).collect();
            whole.extend(b.iter().cloned());
            whole.extend([true, false, true, true, false].iter().cloned());
            s.push_str(&format!("{} open-bitstr {} bits drop {} bits close-bitstr", bits_lit(&whole), off, b.len()));
        }
        Field::Str(t) => s.push_str(&str_lit(t)),
        Field::Bytes(b, nest) => {
            // ints directly in the enclosing vector, or in nested vectors
            let items: Vec<String> = b.iter().map(|x| format!("{}", x)).collect();
            match nest {
                0 => s.push_str(&format!("[ {} ]", items.join(" "))),
                1 => s.push_str(&format!("[ [ {} ] ]", items.join(" "))),
                3 => s.push_str(&items.join(" ")), // bare ints, items of the enclosing vector
                _ => {
                    let (a, c) = items.split_at(items.len() / 2);
                    s.push_str(&format!("[ {} [ {} ] ]", a.join(" "), c.join(" ")));
                }
            }
        }
    }
    s
}

fn parse_src(f: &Field, cur_big: &mut bool) -> String {
    let mut s = String::new();
    let mut order = |s: &mut String, big: bool, cur: &mut bool| {
        if *cur != big {
            s.push_str(if big { "big " } else { "little " });
            *cur = big;
        }
    };
    match f {
        Field::Int { w, signed, big, fixed_spelling, .. } => {
            let t = if *signed { "i" } else { "u" };
            match fixed_spelling {
                1 | 3 => {
                    order(&mut s, *big, cur_big);
                    s.push_str(&format!("{}{}", t, w));
                }
                2 => s.push_str(&format!("{}{}{}", t, w, if *big { "be" } else { "le" })),
                _ => {
                    order(&mut s, *big, cur_big);
                    s.push_str(&format!("{} {}", w, if *signed { "int" } else { "uint" }));
                }
            }
        }
        Field::F32 { big, spelling, .. } | Field::F64 { big, spelling, .. } => {
            let w = width(f);
            match spelling {
                1 | 3 => s.push_str(&format!("f{}{}", w, if *big { "be" } else { "le" })),
                2 => {
                    order(&mut s, *big, cur_big);
                    s.push_str(&format!("{} float", w));
                }
                _ => {
                    order(&mut s, *big, cur_big);
                    s.push_str(&format!("f{}", w));
                }
            }
        }
        Field::Raw(b) | Field::Sliced(b, _) => s.push_str(&format!("{} bits", b.len())),
        Field::Str(t) => s.push_str(&format!("{} bytes bitstr>utf8", t.len())),
        Field::Bytes(b, _) => s.push_str(&format!("{} bytes", b.len())),
    }
    s
}

fn show(b: &[bool]) -> String {
    b.iter().map(|x| if *x { '1' } else { '0' }).collect()
}

fn check_parsed(f: &Field, got: &Cell) -> Option<String> {
    let enc = encode(f);
    match f {
        Field::Int { signed, big, .. } => {
            let want: i128 = if *signed { ref_decode_int(&enc, *big) } else { ref_decode_uint(&enc, *big) as i128 };
            match got.value() {
                Cell::Int(g) if *g == want => None,
                other => Some(format!("parsed {} expected {}", xs::render(other), want)),
            }
        }
        Field::F32 { bits, .. } => {
            let want = f32::from_bits(*bits) as f64;
            match got.value() {
                Cell::Real(g) if g.to_bits() == want.to_bits() || (g.is_nan() && want.is_nan()) => None,
                other => Some(format!("parsed {} expected {:?}", xs::render(other), want)),
            }
        }
        Field::F64 { bits, .. } => {
            let want = f64::from_bits(*bits);
            match got.value() {
                Cell::Real(g) if g.to_bits() == want.to_bits() || (g.is_nan() && want.is_nan()) => None,
                other => Some(format!("parsed {} expected {:?}", xs::render(other), want)),
            }
        }
        Field::Raw(_) | Field::Sliced(..) | Field::Bytes(..) => match got.value() {
            Cell::Bitstr(b) if bits_of(b) == enc => None,
            other => Some(format!("parsed {} expected bits {}", xs::render(other), show(&enc))),
        },
        Field::Str(t) => match got.value() {
            Cell::Str(s) if s.as_str() == t.as_str() => None,
            other => Some(format!("parsed {} expected {:?}", xs::render(other), t)),
        },
    }
}

pub fn case(ch: &mut Choices, ctx: &CaseCtx) -> CaseOut {
    let mut out = CaseOut::default();
    let maxf = if ctx.tier_thorough { 40 } else { 12 };
    let n = 1 + ch.below(maxf);
    let mut fields: Vec<Field> = Vec::new();
    for _ in 0..n {
        let mut f = gen_field(ch);
        // NaN floats: the f64 -> f32 -> f64 path only preserves NaN-ness; keep bit patterns otherwise exact
        if let Field::F32 { bits, .. } = &mut f {
            if f32::from_bits(*bits).is_nan() {
                *bits |= 0x0040_0000;
            }
        }
        fields.push(f);
    }
    // model product
    let mut model: Vec<bool> = Vec::new();
    let mut starts: Vec<usize> = Vec::new();
    for f in &fields {
        starts.push(model.len());
        model.extend(encode(f));
    }
    let total = model.len();
    let mut xs0 = xs::fresh();
    xs0.set_insn_limit(Some(200_000)).unwrap();
    // float values live in variables (NaN / infinities have no literal)
    for (i, f) in fields.iter().enumerate() {
        match f {
            Field::F32 { bits, .. } => {
                xs0.defvar(Xstr::from(format!("fv{}", i)), Cell::Real(f32::from_bits(*bits) as f64)).unwrap();
            }
            Field::F64 { bits, .. } => {
                xs0.defvar(Xstr::from(format!("fv{}", i)), Cell::Real(f64::from_bits(*bits))).unwrap();
            }
            _ => {}
        }
    }
    let start_big = ch.bool();
    // ---- (a) one >bitstr ---------------------------------------------------
    let mut cur_big = false;
    let mut src_a = String::from(if start_big { "big [ " } else { "little [ " });
    cur_big = start_big || cur_big && false;
    // any bracketing of the field sequence into nested vectors denotes the same concatenation
    let mut open: Vec<usize> = Vec::new(); // remaining fields of each open group
    let mut grouped = false;
    for (i, f) in fields.iter().enumerate() {
        if open.len() < 2 && ch.chance(1, 4) {
            src_a.push_str("[ ");
            open.push(1 + ch.below(3));
            grouped = true;
        }
        src_a.push_str(&pack_src(f, i, &mut cur_big));
        src_a.push(' ');
        for g in open.iter_mut() {
            *g = g.saturating_sub(1);
        }
        while open.last() == Some(&0) {
            open.pop();
            src_a.push_str("] ");
        }
    }
    for _ in 0..open.len() {
        src_a.push_str("] ");
    }
    src_a.push_str("] >bitstr");
    // ---- parse program -------------------------------------------------------
    let mut pbig = cur_big; // byte order is interpreter state: the parse program continues from where packing left it
    let mut src_p = String::from("open-bitstr ");
    for f in &fields {
        src_p.push_str(&parse_src(f, &mut pbig));
        src_p.push(' ');
    }
    src_p.push_str("remain");
    // ---- partition for (b) -----------------------------------------------------
    let mut cuts: Vec<usize> = Vec::new();
    for i in 1..n {
        if ch.chance(1, 3) {
            cuts.push(i);
        }
    }
    cuts.push(n);
    let mut rendered = format!("(a) {}\n(parse) {}\n(b) emits at {:?}", src_a, src_p, cuts);
    let mut fail = |out: &mut CaseOut, sig: &str, detail: String, rendered: &str| {
        out.fail(sig.to_string(), format!("{}\n{}", detail, rendered));
    };
    // run (a)
    let mut xa = xs0.clone();
    let ra = guard(|| xa.eval(&src_a));
    let product = match ra {
        Ok(Ok(())) => match xa.pop_data() {
            Ok(c) => match c.value() {
                Cell::Bitstr(b) if xa.data_depth() == 0 => Some(b.clone()),
                _ => None,
            },
            Err(_) => None,
        },
        Ok(Err(e)) => {
            fail(&mut out, ">bitstr: construction failed", xs::render_err(&e), &rendered);
            None
        }
        Err(pm) => {
            fail(&mut out, &format!("panic: {}", pm), "during construction (a)".into(), &rendered);
            None
        }
    };
    if out.fail.is_none() {
        match &product {
            None => fail(&mut out, ">bitstr: did not leave exactly one bit-string", String::new(), &rendered),
            Some(p) => {
                let got = bits_of(p);
                if got.len() != total {
                    fail(&mut out, ">bitstr: length is not the sum of the field widths", format!("length {} expected {}", got.len(), total), &rendered);
                } else if got != model {
                    let at = got.iter().zip(model.iter()).position(|(a, b)| a != b).unwrap_or(0);
                    let fi = starts.iter().rposition(|s| *s <= at).unwrap_or(0);
                    let kind = match &fields[fi] {
                        Field::Int { .. } => "int",
                        Field::F32 { .. } | Field::F64 { .. } => "float",
                        Field::Raw(_) | Field::Sliced(..) => "raw",
                        Field::Str(_) => "str",
                        Field::Bytes(..) => "bytes",
                    };
                    fail(&mut out, &format!(">bitstr: wrong bits in a {} field", kind), format!("first difference at bit {} (field #{} {:?})\n got {}\nwant {}", at, fi, fields[fi], show(&got), show(&model)), &rendered);
                }
            }
        }
    }
    // parse back
    if out.fail.is_none() {
        let p = product.clone().unwrap();
        let mut xp = xa.clone();
        xp.push_data(Cell::Bitstr(p)).unwrap();
        match guard(|| xp.eval(&src_p)) {
            Ok(Ok(())) => {
                let st = xs::stack(&xp);
                if st.len() != n + 1 {
                    fail(&mut out, "parse: wrong number of values", format!("stack [{}]", xs::render_stack(&xp)), &rendered);
                } else {
                    for (i, f) in fields.iter().enumerate() {
                        if let Some(d) = check_parsed(f, &st[i]) {
                            let kind = match f {
                                Field::Int { big, .. } => {
                                    if *big {
                                        "big-endian int"
                                    } else {
                                        "little-endian int"
                                    }
                                }
                                Field::F32 { .. } | Field::F64 { .. } => "float",
                                Field::Raw(_) | Field::Sliced(..) => "raw",
                                Field::Str(_) => "str",
                                Field::Bytes(..) => "bytes",
                            };
                            fail(&mut out, &format!("parse: {} field does not round-trip", kind), format!("field #{} {:?} at bit {}: {}", i, f, starts[i], d), &rendered);
                            break;
                        }
                    }
                    if out.fail.is_none() && st[n].value() != &Cell::Int(0) {
                        fail(&mut out, "parse: remain is not 0", xs::render(&st[n]), &rendered);
                    }
                }
            }
            Ok(Err(e)) => fail(&mut out, "parse: a read failed", xs::render_err(&e), &rendered),
            Err(pm) => fail(&mut out, &format!("panic: {}", pm), "during parsing".into(), &rendered),
        }
    }
    // ---- (b) emits ---------------------------------------------------------------
    let mut unaligned_seam = false;
    let mut stepped_any = false;
    if out.fail.is_none() {
        let mut xb = xs0.clone();
        xb.intercept_output(true).unwrap();
        let mut cur = false;
        let mut lo = 0;
        let mut emitted = 0usize;
        let mut srcs: Vec<String> = Vec::new();
        let _ = guard(|| xb.eval(if start_big { "big" } else { "little" }));
        cur = start_big || cur && false;
        let stepped = ch.chance(1, 4);
        let back_all = ch.bool();
        if stepped {
            xb.set_recording_enabled(true);
            stepped_any = true;
        }
        for &hi in &cuts {
            let single = hi - lo == 1 && ch.bool() && !matches!(fields[lo], Field::Str(_) | Field::Bytes(..));
            let mut s = String::new();
            if single {
                s.push_str(&pack_src(&fields[lo], lo, &mut cur));
                s.push_str(" emit");
            } else {
                s.push_str("[ ");
                for i in lo..hi {
                    s.push_str(&pack_src(&fields[i], i, &mut cur));
                    s.push(' ');
                }
                s.push_str("] >bitstr emit");
            }
            srcs.push(if stepped { format!("(stepped to the end, {} back, run) {}", if back_all { "all the way".to_string() } else { "part of the way".to_string() }, s) } else { s.clone() });
            let before_bits = emitted;
            let mut rewound: Option<(Option<Cell>, Option<Cell>)> = None;
            let r = if !stepped {
                guard(|| xb.eval(&s))
            } else {
                // the same source driven the way a debugger drives it: forward step by step, back, forward again
                let frac = ch.below(4) + 1;
                guard(|| {
                    xb.compile(&s)?;
                    let mut steps = 0usize;
                    while xb.is_running() {
                        xb.next()?;
                        steps += 1;
                    }
                    let back = if back_all { steps } else { (steps * frac / 5).max(1).min(steps) };
                    for _ in 0..back {
                        xb.rnext()?;
                    }
                    if back == steps {
                        rewound = Some((xb.get_var_value("output").ok().cloned(), xb.get_var_value("output-length").ok().cloned()));
                    }
                    xb.run()
                })
            };
            if let Some((o, l)) = rewound {
                let okb = match o.as_ref().map(|c| c.value().clone()) {
                    Some(Cell::Bitstr(b)) => bits_of(&b) == model[..before_bits],
                    Some(Cell::Nil) | None => before_bits == 0,
                    _ => false,
                };
                let okl = match l.as_ref().map(|c| c.value().clone()) {
                    Some(Cell::Int(x)) => x == before_bits as i128,
                    _ => false,
                };
                if !okb || !okl {
                    fail(&mut out, "emit: stepping back over the emits does not leave output / output-length at what was emitted before them", format!("`{}` rewound: output {} length {:?}, expected {} ({} bits)", s, o.map(|c| xs::render(&c)).unwrap_or_default(), l.map(|c| xs::render(&c)), show(&model[..before_bits]), before_bits), &rendered);
                    break;
                }
            }
            match r {
                Ok(Ok(())) => {}
                Ok(Err(e)) => {
                    fail(&mut out, "emit: failed", format!("{} in `{}`", xs::render_err(&e), s), &rendered);
                    break;
                }
                Err(pm) => {
                    fail(&mut out, &format!("panic: {}", pm), format!("in `{}`", s), &rendered);
                    break;
                }
            }
            emitted = if hi < n { starts[hi] } else { total };
            if hi < n && emitted % 8 != 0 {
                unaligned_seam = true;
            }
            // after every emit: output = everything emitted so far, output-length = its length
            let o = xb.get_var_value("output").ok().cloned();
            let l = xb.get_var_value("output-length").ok().cloned();
            let okb = matches!(o.as_ref().map(|c| c.value().clone()), Some(Cell::Bitstr(b)) if bits_of(&b) == model[..emitted]);
            if !okb {
                fail(&mut out, "emit: output is not the concatenation of everything emitted", format!("after `{}`: output {} expected {}", s, o.map(|c| xs::render(&c)).unwrap_or_default(), show(&model[..emitted])), &rendered);
                break;
            }
            if l.as_ref().map(|c| c.value().clone()) != Some(Cell::Int(emitted as i128)) {
                fail(&mut out, "emit: output-length is not the emitted bit count", format!("after `{}`: {:?} expected {}", s, l.map(|c| xs::render(&c)), emitted), &rendered);
                break;
            }
            lo = hi;
        }
        rendered.push_str(&format!("\n(b) {}", srcs.join(" ; ")));
        if out.fail.is_none() && xb.data_depth() != 0 {
            fail(&mut out, "emit: left values on the stack", xs::render_stack(&xb), &rendered);
        }
    }
    // classification
    let mut unaligned_field = false;
    for (i, f) in fields.iter().enumerate() {
        if starts[i] % 8 != 0 {
            match f {
                Field::Int { w, big, .. } if !*big || *w > 8 => unaligned_field = true,
                Field::F32 { .. } | Field::F64 { .. } | Field::Str(_) | Field::Bytes(..) => unaligned_field = true,
                _ => {}
            }
        }
    }
    out.nontrivial = unaligned_field || (cuts.len() >= 2 && unaligned_seam);
    if unaligned_field {
        out.class("unaligned-multibyte-or-little-field");
    }
    if unaligned_seam {
        out.class("unaligned-emit-seam");
    }
    if fields.iter().any(|f| matches!(f, Field::Int { w, .. } if *w > 64)) {
        out.class("wide-int");
    }
    if fields.iter().any(|f| matches!(f, Field::F32 { .. } | Field::F64 { .. })) {
        out.class("float");
    }
    if stepped_any {
        out.class("emits-driven-by-step-back-and-forth");
    }
    if grouped {
        out.class("nested-vector-groups");
    }
    if fields.iter().any(|f| matches!(f, Field::Sliced(..))) {
        out.class("raw-field-sliced-from-a-larger-buffer");
    }
    out.hash = hash_of(&(fields.clone(), cuts.clone(), start_big));
    if ctx.want_render || out.fail.is_some() {
        out.render = Some(rendered);
    }
    out
}
