// C12 — maps, vectors and strings obey collection laws under the language's equality.
use crate::common::*;
use crate::val::{self, veq, V};
use crate::xs;
use crate::PropDef;
use xeh::prelude::*;

pub const DEF: PropDef = PropDef {
    id: "C12",
    rule: "histories of <=25 (quick) / <=60 (thorough) collection words on values held in four global variables and in deeper stack slots: map literal, insert, remove, get, foreach; vector push, nth, get, slice, reverse, length, collect, unbox, concat, join, sort; string length, slice. \
Keys/elements of every type (nil, flags, ints incl. extremes, non-NaN reals incl. -0.0, strings, bit-strings, vectors, maps, tagged values), keys that differ only in type (1, 1.0, \"1\", |01|, [ 1 ], true, nil); indices in range, +-len, +-(len+1), isize/i128 extremes, 2^64+k. \
Oracle: an association-list / Vec model under the language's equality (cross-checked against equal? on the keys used); foreach compared as a multiset of pairs; out-of-range nth/get must be an error, slice clamps; sort = ascending permutation for all-int / all-real / all-string inputs. \
After every op every variable and every older stack slot must still equal its model value (persistence). Non-trivial = the history updates a collection that is still referenced elsewhere, or uses two keys of different types in one map, or an out-of-range index; distinct = hash of the op list",
    assumptions: &[
        "string length: the character count for ASCII strings; for non-ASCII strings either the character count or the UTF-8 byte count is accepted (the documentation does not say which)",
        "receivers are untagged collections (tag transparency of the receiver is C13's subject); tagged values occur as keys, values and elements",
        "concat/join are checked on vectors (possibly nested) of strings and untagged integers",
    ],
    max_len: 900,
    quick_cases: 100_000,
    thorough_cases: 1_200_000,
    case,
    systematic: None,
    both_profiles_quick: true,
    max_shrink_iters: 8000,
    exhaustive_note: None,
};

const NVARS: usize = 4;
pub const KNOWN_KEYS: &str = "map: keys that are not mutually ordered (different types, or flags / nil / bit-strings / vectors / maps) are treated as one key";

fn gen_collection(ch: &mut Choices) -> V {
    match ch.weighted(&[5, 5, 2, 2, 1, 1]) {
        0 => {
            let n = ch.below(6);
            V::Vec((0..n).map(|_| val::gen_value(ch, 1)).collect())
        }
        1 => {
            let n = ch.below(5);
            let mut m: Vec<(V, V)> = Vec::new();
            for _ in 0..n {
                let k = val::gen_key_for(ch, &m);
                let v = val::gen_value(ch, 1);
                val::map_insert(&mut m, k, v);
            }
            V::Map(m)
        }
        2 => V::Str(val::STRS[ch.below(val::STRS.len())].to_string()),
        3 => {
            // sortable vectors
            let n = ch.below(7);
            match ch.below(3) {
                0 => V::Vec((0..n).map(|_| V::Int(ch.range(-5, 5) as i128)).collect()),
                1 => V::Vec((0..n).map(|_| V::real([0.0, -1.5, 2.25, 1.0, -0.0, 7.5][ch.below(6)])).collect()),
                _ => V::Vec((0..n).map(|_| V::Str(val::STRS[ch.below(val::STRS.len())].to_string())).collect()),
            }
        }
        4 => {
            // joinable: strings, ints, nested vectors of those
            let n = ch.below(5);
            V::Vec(
                (0..n)
                    .map(|_| match ch.below(4) {
                        0 => V::Int(ch.range(-9, 99) as i128),
                        1 => V::Vec(vec![V::Str("p".into()), V::Str("q".into())]),
                        _ => V::Str(val::STRS[ch.below(val::STRS.len())].to_string()),
                    })
                    .collect(),
            )
        }
        _ => val::gen_value(ch, 2).strip().clone(),
    }
}

fn gen_index(ch: &mut Choices, len: usize) -> i128 {
    let l = len as i128;
    match ch.weighted(&[8, 4, 2]) {
        0 => {
            if len == 0 {
                0
            } else {
                ch.range(-(l as i64), l as i64 - 1) as i128
            }
        }
        1 => *[l, -l, l + 1, -l - 1, 0, -1, l - 1].get(ch.below(7)).unwrap(),
        _ => {
            let k = ch.below(len + 2) as i128;
            *[isize::MIN as i128, isize::MAX as i128, (1i128 << 64) + k, i128::MAX, i128::MIN, (1i128 << 63), -(1i128 << 64) - k, (1i128 << 32) + k].get(ch.below(8)).unwrap()
        }
    }
}

fn clamp_idx(idx: i128, len: usize) -> usize {
    let l = len as i128;
    if idx < 0 {
        (l + idx).max(0) as usize
    } else {
        idx.min(l) as usize
    }
}

fn joinable(v: &V) -> bool {
    match v {
        V::Str(_) | V::Int(_) => true,
        V::Vec(items) => items.iter().all(joinable),
        _ => false,
    }
}

fn join_model(items: &[V], sep: Option<&str>, out: &mut String) {
    let mut n = 0;
    for x in items {
        match x {
            V::Vec(inner) => join_model(inner, sep, out),
            V::Str(s) => out.push_str(s),
            V::Int(i) => out.push_str(&format!("{}", i)),
            _ => {}
        }
        if let Some(s) = sep {
            n += 1;
            if n < items.len() {
                out.push_str(s);
            }
        }
    }
}

enum Want {
    /// must fail; nothing changes
    Fail,
    /// pushes these values (bottom first), compared with veq
    Values(Vec<V>),
    /// pushes one vector whose pairs/elements are compared as a multiset of consecutive pairs
    PairsMultiset(Vec<(V, V)>),
    /// pushes one int that is one of the candidates
    IntOneOf(Vec<i128>),
    /// stores a new value into variable j (nothing pushed)
    Store(usize, V),
    /// sort: ascending permutation of the input, stored to j
    SortedPermutation(usize, Vec<V>),
}

fn less_or_equal(a: &V, b: &V) -> bool {
    match (a, b) {
        (V::Int(x), V::Int(y)) => x <= y,
        (V::Real(x), V::Real(y)) => f64::from_bits(*x) <= f64::from_bits(*y),
        (V::Str(x), V::Str(y)) => x <= y,
        _ => false,
    }
}

pub fn case(ch: &mut Choices, ctx: &CaseCtx) -> CaseOut {
    let mut out = CaseOut::default();
    let mut xs = xs::fresh();
    xs.set_insn_limit(Some(200_000)).unwrap();
    // 1 case in 4 runs with the reverse-debugging log on: what the words compute must not depend on it
    if ch.chance(1, 4) {
        xs.set_recording_enabled(true);
        out.class("recording-on");
    }
    // 1 case in 8 is allowed to build maps whose keys are not mutually ordered (the known finding);
    // all others keep every map's keys within one ordered class, so the search continues behind it
    let allow_mixed = ch.chance(1, 8);
    val::set_safe(!allow_mixed);
    let mut exposed = false;
    let max_ops = if ctx.tier_thorough { 60 } else { 25 };
    let mut vars: Vec<V> = Vec::new();
    let mut log: Vec<String> = Vec::new();
    // initial contents
    for i in 0..NVARS {
        let v = gen_collection(ch);
        let s = format!("{} var c{}", val::src(&v), i);
        log.push(s.clone());
        match guard(|| xs.eval(&s)) {
            Ok(Ok(())) => {}
            Ok(Err(e)) => {
                out.fail("literal: a well-formed collection literal was rejected", format!("{}: {}", s, xs::render_err(&e)));
                break;
            }
            Err(pm) => {
                out.fail(format!("panic: {}", pm), s);
                break;
            }
        }
        exposed = exposed || val::value_exposed(&v);
        vars.push(v);
    }
    // older references kept on the stack (bottom first)
    let mut held: Vec<V> = Vec::new();
    let mut shared_update = false;
    let mut mixed_keys = false;
    let mut oob = false;
    let mut str_len_mode: Option<bool> = None; // Some(true) = bytes
    let nops = 1 + ch.below(max_ops);
    for _ in 0..nops {
        if out.fail.is_some() {
            break;
        }
        let i = ch.below(NVARS);
        let j = ch.below(NVARS);
        let cur = vars[i].clone();
        let src: String;
        let want: Want;
        let wordname: &'static str;
        let kind = ch.weighted(&[8, 8, 5, 8, 4, 5, 6, 6, 3, 3, 2, 3, 3, 4, 3]);
        match kind {
            0 => {
                // fresh literal (map literals may repeat a key: the later pair wins)
                let v = if ch.chance(1, 3) {
                    let n = 1 + ch.below(4);
                    let mut pairs: Vec<(V, V)> = Vec::new();
                    for _ in 0..n {
                        let k = val::gen_key_for(ch, &pairs);
                        pairs.push((k, val::gen_scalar(ch)));
                    }
                    let mut s = String::from("{");
                    let mut m: Vec<(V, V)> = Vec::new();
                    for (k, x) in &pairs {
                        s.push_str(&format!(" {} {}", val::src(x), val::src(k)));
                        val::map_insert(&mut m, k.clone(), x.clone());
                    }
                    s.push_str(" }");
                    src = format!("{} ! c{}", s, j);
                    V::Map(m)
                } else {
                    let v = gen_collection(ch);
                    src = format!("{} ! c{}", val::src(&v), j);
                    v
                };
                wordname = "literal";
                want = Want::Store(j, v);
            }
            1 => {
                let k = match &cur {
                    V::Map(m) => val::gen_key_for(ch, m),
                    _ => val::gen_key(ch),
                };
                let x = val::gen_value(ch, 1);
                if let V::Map(m) = &cur {
                    let mut ks: Vec<&V> = m.iter().map(|p| &p.0).collect();
                    ks.push(&k);
                    exposed = exposed || val::keys_exposed(&ks) || val::value_exposed(&x) || val::value_exposed(&k);
                }
                src = format!("c{} {} {} insert ! c{}", i, val::src(&x), val::src(&k), j);
                wordname = "insert";
                want = match &cur {
                    V::Map(m) => {
                        let mut m2 = m.clone();
                        val::map_insert(&mut m2, k, x);
                        Want::Store(j, V::Map(m2))
                    }
                    _ => Want::Fail,
                };
            }
            2 => {
                let k = match &cur {
                    V::Map(m) if !m.is_empty() && ch.chance(2, 3) => m[ch.below(m.len())].0.clone(),
                    V::Map(m) => val::gen_key_for(ch, m),
                    _ => val::gen_key(ch),
                };
                if let V::Map(m) = &cur {
                    let mut ks: Vec<&V> = m.iter().map(|p| &p.0).collect();
                    ks.push(&k);
                    exposed = exposed || val::keys_exposed(&ks) || val::value_exposed(&k);
                }
                src = format!("c{} {} remove ! c{}", i, val::src(&k), j);
                wordname = "remove";
                want = match &cur {
                    V::Map(m) => {
                        let mut m2 = m.clone();
                        val::map_remove(&mut m2, &k);
                        Want::Store(j, V::Map(m2))
                    }
                    _ => Want::Fail,
                };
            }
            3 => {
                // get: map key or vector index
                match &cur {
                    V::Map(m) => {
                        let k = if !m.is_empty() && ch.chance(1, 2) { m[ch.below(m.len())].0.clone() } else { val::gen_key_for(ch, m) };
                        let mut ks: Vec<&V> = m.iter().map(|p| &p.0).collect();
                        ks.push(&k);
                        exposed = exposed || val::keys_exposed(&ks) || val::value_exposed(&k);
                        src = format!("c{} {} get", i, val::src(&k));
                        want = Want::Values(vec![val::map_get(m, &k).cloned().unwrap_or(V::Nil)]);
                    }
                    V::Vec(items) => {
                        let idx = gen_index(ch, items.len());
                        src = format!("c{} {} get", i, idx);
                        want = if idx >= 0 && (idx as u128) < items.len() as u128 {
                            Want::Values(vec![items[idx as usize].clone()])
                        } else {
                            oob = true;
                            Want::Fail
                        };
                    }
                    _ => {
                        src = format!("c{} 0 get", i);
                        want = Want::Fail;
                    }
                }
                wordname = "get";
            }
            4 => {
                // (1 in 4: the collection carries a tag while it is iterated - the items and the index words are the same)
                src = match ch.weighted(&[3, 1]) {
                    0 => format!("[ c{} foreach I loop ]", i),
                    _ => format!("[ c{} 1 \"k\" insert-tag foreach I loop ]", i),
                };
                wordname = "foreach";
                want = match &cur {
                    V::Map(m) => Want::PairsMultiset(m.clone()),
                    V::Vec(items) => Want::Values(vec![V::Vec(items.clone())]),
                    _ => Want::Fail,
                };
            }
            5 => {
                let x = val::gen_value(ch, 1);
                src = format!("{} c{} push ! c{}", val::src(&x), i, j);
                wordname = "push";
                want = match &cur {
                    V::Vec(items) => {
                        let mut v2 = items.clone();
                        v2.push(x);
                        Want::Store(j, V::Vec(v2))
                    }
                    _ => Want::Fail,
                };
            }
            6 => {
                let len = match &cur {
                    V::Vec(items) => items.len(),
                    _ => 0,
                };
                let idx = gen_index(ch, len);
                src = format!("c{} {} nth", i, idx);
                wordname = "nth";
                want = match &cur {
                    V::Vec(items) => {
                        let l = items.len() as i128;
                        if idx >= 0 && idx < l {
                            Want::Values(vec![items[idx as usize].clone()])
                        } else if idx < 0 && idx.unsigned_abs() <= l as u128 {
                            Want::Values(vec![items[(l + idx) as usize].clone()])
                        } else {
                            oob = true;
                            Want::Fail
                        }
                    }
                    _ => Want::Fail,
                };
            }
            7 => {
                let len = match &cur {
                    V::Vec(items) => items.len(),
                    V::Str(s) => s.chars().count(),
                    _ => 0,
                };
                let a = gen_index(ch, len);
                let b = gen_index(ch, len);
                src = format!("c{} {} {} slice", i, a, b);
                wordname = "slice";
                let (s, e) = (clamp_idx(a, len), clamp_idx(b, len));
                if a.unsigned_abs() > len as u128 || b.unsigned_abs() > len as u128 {
                    oob = true;
                }
                want = match &cur {
                    V::Vec(items) => Want::Values(vec![V::Vec(if s < e { items[s..e].to_vec() } else { vec![] })]),
                    V::Str(t) => Want::Values(vec![V::Str(if s < e { t.chars().skip(s).take(e - s).collect() } else { String::new() })]),
                    _ => Want::Fail,
                };
            }
            8 => {
                src = format!("c{} reverse ! c{}", i, j);
                wordname = "reverse";
                want = match &cur {
                    V::Vec(items) => Want::Store(j, V::Vec(items.iter().rev().cloned().collect())),
                    _ => Want::Fail,
                };
            }
            9 => {
                src = format!("c{} length", i);
                wordname = "length";
                want = match &cur {
                    V::Vec(items) => Want::IntOneOf(vec![items.len() as i128]),
                    V::Bits(b) => Want::IntOneOf(vec![b.len() as i128]),
                    V::Str(s) => {
                        let (c, b) = (s.chars().count() as i128, s.len() as i128);
                        match str_len_mode {
                            _ if c == b => Want::IntOneOf(vec![c]),
                            Some(true) => Want::IntOneOf(vec![b]),
                            Some(false) => Want::IntOneOf(vec![c]),
                            None => Want::IntOneOf(vec![c, b]),
                        }
                    }
                    _ => Want::Fail,
                };
            }
            10 => {
                let n = ch.below(4);
                let items: Vec<V> = (0..n).map(|_| val::gen_value(ch, 1)).collect();
                // in a meta block the word sees the block's own items only, whatever the program holds below
                let in_block = ch.chance(1, 4);
                let cnt: i128 = match ch.weighted(&[6, 2, 1, 1, if in_block && !held.is_empty() { 2 } else { 0 }]) {
                    0 => n as i128,
                    1 => ch.below(n + 1) as i128,
                    2 => (n + held.len() + 1 + ch.below(3)) as i128,
                    3 => *[-1, 1i128 << 64, i128::MAX].get(ch.below(3)).unwrap(),
                    _ => (n + 1 + ch.below(held.len())) as i128,
                };
                let body = format!("{} {} collect", items.iter().map(val::src).collect::<Vec<_>>().join(" "), cnt);
                wordname = "collect";
                let partial = cnt >= 0 && (cnt as u128) < n as u128;
                if in_block && !partial {
                    src = format!("#( {} #)", body);
                    want = if cnt == n as i128 { Want::Values(vec![V::Vec(items)]) } else { Want::Fail };
                } else {
                    src = body;
                    want = if cnt >= 0 && (cnt as u128) <= n as u128 {
                        let k = n - cnt as usize;
                        let mut vs: Vec<V> = items[..k].to_vec();
                        vs.push(V::Vec(items[k..].to_vec()));
                        Want::Values(vs)
                    } else {
                        Want::Fail
                    };
                }
            }
            11 => {
                src = format!("c{} unbox", i);
                wordname = "unbox";
                want = match &cur {
                    V::Vec(items) => Want::Values(items.clone()),
                    _ => Want::Fail,
                };
            }
            12 => {
                let sep = ch.bool();
                let seps = [", ", "", "-", "é"];
                let sp = seps[ch.below(4)];
                src = if sep { format!("c{} {} join", i, xs::str_lit(sp)) } else { format!("c{} concat", i) };
                wordname = if sep { "join" } else { "concat" };
                want = match &cur {
                    V::Vec(items) if items.iter().all(joinable) => {
                        let mut s = String::new();
                        join_model(items, if sep { Some(sp) } else { None }, &mut s);
                        Want::Values(vec![V::Str(s)])
                    }
                    V::Vec(_) => {
                        // elements with print semantics: not modelled, only "no change to anything else"
                        src_skip(&mut out);
                        continue;
                    }
                    _ => Want::Fail,
                };
            }
            13 => {
                src = format!("c{} sort ! c{}", i, j);
                wordname = "sort";
                want = match &cur {
                    V::Vec(items) => {
                        let all_int = items.iter().all(|x| matches!(x, V::Int(_)));
                        let all_real = items.iter().all(|x| matches!(x, V::Real(_)));
                        let all_str = items.iter().all(|x| matches!(x, V::Str(_)));
                        if all_int || all_real || all_str {
                            Want::SortedPermutation(j, items.clone())
                        } else {
                            src_skip(&mut out);
                            continue;
                        }
                    }
                    _ => Want::Fail,
                };
            }
            _ => {
                // keep an older reference on the stack
                if held.len() >= 3 {
                    continue;
                }
                src = format!("c{}", i);
                wordname = "hold";
                held.push(cur.clone());
                log.push(src.clone());
                if !matches!(guard(|| xs.eval(&src)), Ok(Ok(()))) {
                    out.fail("hold: loading a variable failed", log.join("\n"));
                }
                continue;
            }
        }
        log.push(src.clone());
        if let Want::Store(_, v) = &want {
            exposed = exposed || val::value_exposed(v);
        }
        if let Want::Values(vs) = &want {
            exposed = exposed || vs.iter().any(val::value_exposed);
        }
        // non-triviality bookkeeping
        if let Want::Store(jj, _) | Want::SortedPermutation(jj, _) = &want {
            let old = &vars[*jj];
            let still_elsewhere = held.iter().any(|h| veq(h, old)) || vars.iter().enumerate().any(|(k, v)| k != *jj && veq(v, old));
            if still_elsewhere {
                shared_update = true;
            }
        }
        if let Want::Store(_, V::Map(m)) = &want {
            let mut types: Vec<&str> = m.iter().map(|(k, _)| k.type_name()).collect();
            types.sort();
            types.dedup();
            if types.len() >= 2 {
                mixed_keys = true;
            }
        }
        let res = match guard(|| xs.eval(&src)) {
            Ok(r) => r,
            Err(pm) => {
                out.fail(format!("panic: {}", pm), format!("history:\n{}", log.join("\n")));
                break;
            }
        };
        let st = xs::stack(&xs);
        let fail = |out: &mut CaseOut, what: &str, detail: String| {
            out.fail(format!("{}: {}", wordname, what), format!("{}\nop: {}\nhistory:\n{}", detail, src, log.join("\n")));
        };
        // older stack slots
        for (k, h) in held.iter().enumerate() {
            let ok = st.get(k).map(|c| val::veq_tags(&val::of_cell(c), h)).unwrap_or(false);
            if !ok {
                fail(&mut out, "an older reference on the stack changed", format!("slot {}: now {} was {}", k, st.get(k).map(xs::render).unwrap_or_default(), val::show(h)));
                break;
            }
        }
        if out.fail.is_some() {
            break;
        }
        let pushed: Vec<V> = st[held.len().min(st.len())..].iter().map(val::of_cell).collect();
        match want {
            Want::Fail => {
                if res.is_ok() {
                    fail(&mut out, "succeeded where the model says it must fail", format!("stack [{}]", xs::render_stack(&xs)));
                    break;
                }
            }
            _ if res.is_err() => {
                fail(&mut out, "failed where the model says it succeeds", xs::render_res(&res));
                break;
            }
            Want::Values(vs) => {
                if pushed.len() != vs.len() || !pushed.iter().zip(vs.iter()).all(|(a, b)| veq(a, b)) {
                    fail(&mut out, "wrong result", format!("got [{}] expected [{}]", pushed.iter().map(val::show).collect::<Vec<_>>().join(" , "), vs.iter().map(val::show).collect::<Vec<_>>().join(" , ")));
                    break;
                }
            }
            Want::PairsMultiset(pairs) => {
                let ok = match pushed.as_slice() {
                    [V::Vec(flat)] if flat.len() == pairs.len() * 2 => {
                        let got: Vec<(&V, &V)> = flat.chunks(2).map(|c| (&c[0], &c[1])).collect();
                        let mut used = vec![false; got.len()];
                        pairs.iter().all(|(k, v)| {
                            if let Some(p) = (0..got.len()).find(|p| !used[*p] && veq(got[*p].0, k) && veq(got[*p].1, v)) {
                                used[p] = true;
                                true
                            } else {
                                false
                            }
                        })
                    }
                    _ => false,
                };
                if !ok {
                    fail(&mut out, "iteration does not visit exactly the map's pairs", format!("got [{}] expected pairs of {}", pushed.iter().map(val::show).collect::<Vec<_>>().join(" , "), val::show(&V::Map(pairs))));
                    break;
                }
            }
            Want::IntOneOf(c) => {
                let ok = match pushed.as_slice() {
                    [V::Int(g)] if c.contains(g) => {
                        if c.len() == 2 && c[0] != c[1] {
                            str_len_mode = Some(*g == c[1]);
                        }
                        true
                    }
                    _ => false,
                };
                if !ok {
                    fail(&mut out, "wrong length", format!("got [{}] expected one of {:?}", pushed.iter().map(val::show).collect::<Vec<_>>().join(" , "), c));
                    break;
                }
            }
            Want::Store(jj, v) => {
                if !pushed.is_empty() {
                    fail(&mut out, "left values on the stack", xs::render_stack(&xs));
                    break;
                }
                vars[jj] = v;
            }
            Want::SortedPermutation(jj, items) => {
                let got = xs.get_var_value(&format!("c{}", jj)).ok().map(val::of_cell);
                let ok = match &got {
                    Some(V::Vec(g)) if g.len() == items.len() => {
                        let ascending = g.windows(2).all(|w| less_or_equal(&w[0], &w[1]));
                        let mut used = vec![false; g.len()];
                        let perm = items.iter().all(|x| {
                            if let Some(p) = (0..g.len()).find(|p| !used[*p] && veq(&g[*p], x) ) {
                                used[p] = true;
                                true
                            } else {
                                false
                            }
                        });
                        ascending && perm
                    }
                    _ => false,
                };
                if !ok {
                    fail(&mut out, "result is not an ascending permutation of the input", format!("got {} from {}", got.as_ref().map(val::show).unwrap_or_default(), val::show(&V::Vec(items))));
                    break;
                }
                vars[jj] = got.unwrap();
            }
        }
        // drop results
        while xs.data_depth() > held.len() {
            let _ = xs.pop_data();
        }
        // persistence: every variable still holds its model value
        for (k, v) in vars.iter().enumerate() {
            let got = xs.get_var_value(&format!("c{}", k)).ok().map(val::of_cell);
            if !got.as_ref().map(|g| val::veq_tags(g, v)).unwrap_or(false) {
                fail(&mut out, "a collection referenced elsewhere changed", format!("c{} is {} but the model says {}", k, got.as_ref().map(val::show).unwrap_or_default(), val::show(v)));
                break;
            }
        }
        // equality cross-check on a pair of keys: the model's equality must be the language's
        if out.fail.is_none() && ch.chance(1, 4) {
            let (a, b) = (val::gen_key(ch), val::gen_key(ch));
            // map equality looks keys up through the same ordering: two maps with keys of different classes are the known finding
            if val::contains_map(&a) && val::contains_map(&b) {
                if val::safe() {
                    continue;
                }
                exposed = true;
            }
            let s = format!("{} {} equal?", val::src(&a), val::src(&b));
            let r = guard(|| xs.eval(&s));
            let top = xs.pop_data().ok();
            if !matches!(r, Ok(Ok(()))) || top.as_ref().map(|c| c.value().clone()) != Some(Cell::Flag(veq(&a, &b))) {
                out.fail("equal?: disagrees with the model's equality", format!("{} gave {:?}, model {}", s, top.map(|c| xs::render(&c)), veq(&a, &b)));
            }
            while xs.data_depth() > held.len() {
                let _ = xs.pop_data();
            }
        }
    }
    val::set_safe(false);
    if exposed {
        out.class("exposed-to-unordered-keys");
        if let Some(f) = out.fail.take() {
            if f.sig.starts_with("panic") {
                out.fail = Some(f);
            } else {
                out.fail = Some(Failure { sig: KNOWN_KEYS.to_string(), detail: format!("[{}] {}", f.sig, f.detail) });
            }
        }
    } else if !allow_mixed {
        out.excluded_known = 1;
    }
    out.nontrivial = shared_update || mixed_keys || oob;
    if shared_update {
        out.class("update-of-shared-collection");
    }
    if mixed_keys {
        out.class("keys-of-different-types");
    }
    if oob {
        out.class("out-of-range-index");
    }
    out.hash = hash_of(&log);
    if ctx.want_render || out.fail.is_some() {
        out.render = Some(log.join(" ; "));
    }
    out
}

fn src_skip(out: &mut CaseOut) {
    out.class("unmodelled-op-skipped");
}

