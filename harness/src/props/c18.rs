// C18 — text encodings of binary data round-trip.
use crate::common::*;
use crate::xs;
use crate::PropDef;
use xeh::bitstr::Bitstr;
use xeh::prelude::*;

pub const DEF: PropDef = PropDef {
    id: "C18",
    rule: "systematic: every byte length 0..=300 (quick) / 0..=4096 (thorough) with pseudo-random, all-zero and all-0xFF content, presented as aligned bit-string, \
bit-string cut at a non-zero bit offset out of a larger one, UTF-8 string (text content) and (nested) vector of bytes/strings/bit-strings, through base32/base32hex/base64/zero85 \
and back; all presentations must give the same text and decode to a bit-string equal? to `x >bitstr`. Random part: random lengths/contents/nesting, invalid texts \
(one character replaced/inserted by one surely outside the alphabet, at first/middle/last/padding position) must decode to exactly nil, and inputs `>bitstr` rejects must be rejected. \
Non-trivial = length not a multiple of the codec block (5/5/3/4 bytes) or unaligned/nested presentation or invalid text; distinct = hash of (kind,length,content seed,presentation)",
    assumptions: &["in-alphabet but malformed text (bad length/padding) is only required not to raise or panic"],
    max_len: 64,
    quick_cases: 40_000,
    thorough_cases: 300_000,
    case,
    systematic: Some(systematic),
    both_profiles_quick: true,
    max_shrink_iters: 2000,
    exhaustive_note: Some("all byte lengths 0..=300 (quick) / 0..=4096 (thorough) x 3 content kinds x 4 codecs x presentations"),
};

const CODECS: [(&str, &str, usize); 4] = [("base32", "base32>", 5), ("base32hex", "base32hex>", 5), ("base64", "base64>", 3), ("zero85", "zero85>", 4)];

fn prng_bytes(seed: u64, n: usize) -> Vec<u8> {
    let mut s = seed | 1;
    (0..n)
        .map(|_| {
            s ^= s << 13;
            s ^= s >> 7;
            s ^= s << 17;
            (s >> 24) as u8
        })
        .collect()
}

fn bits_of_bytes(b: &[u8]) -> Vec<bool> {
    let mut v = Vec::with_capacity(b.len() * 8);
    for x in b {
        for i in (0..8).rev() {
            v.push((x >> i) & 1 == 1);
        }
    }
    v
}

fn unaligned(bytes: &[u8], off: usize) -> Bitstr {
    let mut all = vec![true; off];
    all.extend(bits_of_bytes(bytes));
    all.extend([false, true, true]);
    xs::bitstr_from_bits(&all).substr(off, off + bytes.len() * 8).unwrap()
}

fn nested_vec(bytes: &[u8], seed: u64) -> Cell {
    // split the bytes into ints, strings (ASCII runs), bit-strings and nested vectors
    let mut v = Xvec::new();
    let mut i = 0;
    let mut s = seed | 1;
    while i < bytes.len() {
        s ^= s << 13;
        s ^= s >> 7;
        s ^= s << 17;
        let n = (1 + (s >> 8) % 6) as usize;
        let end = (i + n).min(bytes.len());
        let chunk = &bytes[i..end];
        match s % 4 {
            0 => {
                for b in chunk {
                    v.push_back_mut(Cell::from(*b));
                }
            }
            1 => {
                if let Ok(t) = std::str::from_utf8(chunk) {
                    v.push_back_mut(Cell::from(t.to_string()));
                } else {
                    v.push_back_mut(Cell::Bitstr(Bitstr::from(chunk.to_vec())));
                }
            }
            2 => v.push_back_mut(Cell::Bitstr(unaligned(chunk, 1 + (s as usize >> 20) % 7))),
            _ => {
                let mut inner = Xvec::new();
                for b in chunk {
                    inner.push_back_mut(Cell::from(*b));
                }
                v.push_back_mut(Cell::from(inner));
            }
        }
        i = end;
    }
    Cell::from(v)
}

fn run1(xs: &mut Xstate, arg: Cell, word: &str) -> Result<Result<Cell, Xerr>, String> {
    xs.set_insn_limit(Some(1000)).unwrap();
    while xs.data_depth() > 0 {
        let _ = xs.pop_data();
    }
    xs.push_data(arg).unwrap();
    let r = guard(|| xs.eval(word))?;
    Ok(match r {
        Ok(()) => xs.pop_data(),
        Err(e) => Err(e),
    })
}

/// round trip of one byte string in all presentations through all codecs
fn roundtrip(bytes: &[u8], text: Option<&str>, seed: u64, out: &mut CaseOut) {
    let mut xs = xs::fresh();
    let mut pres: Vec<(&'static str, Cell)> = vec![
        ("aligned", Cell::Bitstr(Bitstr::from(bytes.to_vec()))),
        ("unaligned", Cell::Bitstr(unaligned(bytes, 1 + (seed % 7) as usize))),
        ("vector", nested_vec(bytes, seed)),
    ];
    if let Some(t) = text {
        pres.push(("string", Cell::from(t.to_string())));
    }
    // what >bitstr says
    let reference = Bitstr::from(bytes.to_vec());
    for (pname, val) in &pres {
        match run1(&mut xs, val.clone(), ">bitstr") {
            Ok(Ok(c)) if c.value() == &Cell::Bitstr(reference.clone()) => {}
            other => {
                out.fail(format!(">bitstr: wrong result for {} presentation", pname), format!("{:?} -> {:?}", val, other));
                return;
            }
        }
    }
    for (enc, dec, _blk) in CODECS.iter() {
        let mut first: Option<String> = None;
        for (pname, val) in &pres {
            let t = match run1(&mut xs, val.clone(), enc) {
                Err(p) => {
                    out.fail(format!("panic in {}: {}", enc, p), format!("{} bytes, {}", bytes.len(), pname));
                    return;
                }
                Ok(Err(e)) => {
                    out.fail(format!("{}: rejects an input >bitstr accepts ({})", enc, pname), format!("{} bytes {:02x?} -> {:?}", bytes.len(), bytes, e));
                    return;
                }
                Ok(Ok(c)) => match c.value() {
                    Cell::Str(s) if c.tags().is_none() => s.to_string(),
                    other => {
                        out.fail(format!("{}: result is not a plain string", enc), format!("{:?}", other));
                        return;
                    }
                },
            };
            match &first {
                None => first = Some(t.clone()),
                Some(f) if *f == t => {}
                Some(f) => {
                    out.fail(format!("{}: text depends on the presentation ({})", enc, pname), format!("bytes {:02x?}: {:?} vs {:?}", bytes, f, t));
                    return;
                }
            }
            match run1(&mut xs, Cell::from(t.clone()), dec) {
                Err(p) => {
                    out.fail(format!("panic in {}: {}", dec, p), format!("text {:?}", t));
                    return;
                }
                Ok(Ok(c)) if c.value() == &Cell::Bitstr(reference.clone()) && matches!(c.value(), Cell::Bitstr(_)) => {}
                other => {
                    out.fail(
                        format!("{} {}: round trip differs ({})", enc, dec, pname),
                        format!("bytes {:02x?} ({}) -> {:?} -> {:?}", bytes, bytes.len(), t, other),
                    );
                    return;
                }
            }
        }
    }
}

fn systematic(k: usize, n: usize, cfg: &EngineCfg, stats: &mut Stats) {
    let maxlen: u32 = if cfg.thorough { 4096 } else { 300 };
    let mut f = |ch: &mut Choices, ctx: &CaseCtx| case(ch, ctx);
    let mut idx = 0;
    for len in 0..=maxlen {
        for content in 0..3u32 {
            idx += 1;
            if idx % n != k {
                continue;
            }
            // mode 0 = round trip; [mode, len, content kind, seed hi, seed lo]
            let seed = (cfg.seed as u32) ^ len.wrapping_mul(2654435761);
            if !run_direct(&[0, len, content, seed, len + 17], cfg, stats, idx % 97 == 0, &mut f) {
                return;
            }
        }
    }
    stats.exhaustive_part = true;
}

// (the last entries are letters whose Unicode case mappings are ASCII letters: ı -> I, ſ -> S, K (kelvin) -> k, ß -> SS, ﬁ -> FI)
// (ASCII punctuation that none of base32 / base32hex / base64 writes - among it the URL-safe variants' `-` and `_` -
// and non-ASCII letters, some of which case-map to ASCII letters)
const OUTSIDE: [&str; 38] = [
    "`", "~", " ", "é", "я", "\u{131}", "\u{17f}", "\u{212a}", "\u{df}", "\u{fb01}", "\u{130}", "-", "_", ".", ",", ":", "*", "!", "@", "#", "$", "%", "&", "(", ")", "[", "]", "{", "}", "<", ">", "?", "^", "|", "\\", "'", "\"", ";",
];
const OUTSIDE_Z85: [&str; 16] = ["`", "~", " ", "é", "\"", ",", ";", "я", "\u{131}", "\u{17f}", "\u{212a}", "\u{fb01}", "_", "'", "\\", "|"];

pub fn case(ch: &mut Choices, ctx: &CaseCtx) -> CaseOut {
    let mut out = CaseOut::default();
    let maxlen = if ctx.tier_thorough { 4096 } else { 300 };
    let mode = ch.weighted(&[5, 4, 3]);
    match mode {
        0 => {
            let len = if ch.direct { ch.raw() as usize } else { ch.below(maxlen + 1).min(if ch.bool() { 40 } else { maxlen }) };
            let kind = ch.below(3);
            let seed = ch.u64();
            let bytes = match kind {
                0 => prng_bytes(seed, len),
                1 => vec![0u8; len],
                _ => vec![0xffu8; len],
            };
            // text presentation: a separate UTF-8 text of about the same length
            let text: String = {
                let alphabet: Vec<char> = "aZ09 ~\"\\\n\té€😀".chars().collect();
                let p = prng_bytes(seed ^ 0x55, len);
                let mut t = String::new();
                for b in p {
                    if t.len() >= len {
                        break;
                    }
                    t.push(alphabet[b as usize % alphabet.len()]);
                }
                t
            };
            roundtrip(&bytes, None, seed, &mut out);
            if out.fail.is_none() {
                roundtrip(text.as_bytes(), Some(&text), seed ^ 1, &mut out);
            }
            out.nontrivial = true; // unaligned and nested presentations are always included
            out.class("roundtrip");
            if len % 5 != 0 || len % 3 != 0 || len % 4 != 0 {
                out.class("length-not-block-multiple");
            }
            out.hash = hash_of(&("rt", len, kind, seed));
            if ctx.want_render || out.fail.is_some() {
                out.render = Some(format!("round trip: {} bytes, content kind {}, seed {:#x}; text {:?}", len, kind, seed, text.chars().take(40).collect::<String>()));
            }
        }
        1 => {
            // invalid text => nil
            let ci = ch.below(4);
            let (enc, dec, _) = CODECS[ci];
            let len = ch.below(41);
            let seed = ch.u64();
            let bytes = prng_bytes(seed, len);
            let mut xs = xs::fresh();
            let t = match run1(&mut xs, Cell::Bitstr(Bitstr::from(bytes.clone())), enc) {
                Ok(Ok(c)) => c.str().map(|s| s.to_string()).unwrap_or_default(),
                other => {
                    out.fail(format!("{}: fails on an aligned byte string", enc), format!("{:?}", other));
                    String::new()
                }
            };
            let bad = if ci == 3 { OUTSIDE_Z85[ch.below(OUTSIDE_Z85.len())] } else { OUTSIDE[ch.below(OUTSIDE.len())] };
            let chars: Vec<char> = t.chars().collect();
            let posclass = ch.below(4);
            let mutated: String = if chars.is_empty() {
                bad.to_string()
            } else {
                let pos = match posclass {
                    0 => 0,
                    1 => chars.len() / 2,
                    2 => chars.len() - 1,
                    _ => chars.len() - 1 - ch.below(chars.len().min(6)),
                };
                let insert = ch.chance(1, 4);
                let mut s = String::new();
                for (i, c) in chars.iter().enumerate() {
                    if i == pos {
                        s.push_str(bad);
                        if insert {
                            s.push(*c);
                        }
                    } else {
                        s.push(*c);
                    }
                }
                s
            };
            if out.fail.is_none() {
                match run1(&mut xs, Cell::from(mutated.clone()), dec) {
                    Err(p) => out.fail(format!("panic in {}: {}", dec, p), format!("{:?}", mutated)),
                    Ok(Ok(Cell::Nil)) => {}
                    Ok(other) => out.fail(format!("{}: text outside the alphabet does not give nil", dec), format!("{:?} -> {:?}", mutated, other)),
                }
            }
            // malformed but in-alphabet: only "no raise / no panic"
            if out.fail.is_none() && !chars.is_empty() {
                let cut: String = chars[..chars.len() - 1 - ch.below(chars.len().min(4))].iter().collect();
                match run1(&mut xs, Cell::from(cut.clone()), dec) {
                    Err(p) => out.fail(format!("panic in {}: {}", dec, p), format!("{:?}", cut)),
                    Ok(Err(e)) => out.fail(format!("{}: raises on malformed text", dec), format!("{:?} -> {:?}", cut, e)),
                    Ok(Ok(_)) => {}
                }
            }
            out.nontrivial = true;
            out.class("invalid-text");
            out.hash = hash_of(&("inv", ci, mutated.clone()));
            if ctx.want_render || out.fail.is_some() {
                out.render = Some(format!("invalid text for {}: {:?} (from {:?})", dec, mutated, t));
            }
        }
        _ => {
            // same acceptance as >bitstr
            let ci = ch.below(4);
            let (enc, _, _) = CODECS[ci];
            let n = ch.below(6);
            let mut v = Xvec::new();
            let mut desc = String::from("[");
            for _ in 0..n {
                let c = match ch.weighted(&[4, 1, 1, 1, 1, 1, 1, 1, 1]) {
                    0 => Cell::from(ch.below(256)),
                    1 => Cell::Int(256 + ch.below(1000) as i128),
                    2 => Cell::Int(-1 - ch.below(1000) as i128),
                    3 => Cell::Real(1.5),
                    4 => Cell::Nil,
                    5 => Cell::Map(Xmap::new()),
                    6 => Cell::from("ab".to_string()),
                    7 => Cell::Bitstr(xs::bitstr_from_bits(&vec![true; ch.below(12)])),
                    _ => Cell::Flag(true),
                };
                desc.push_str(&format!(" {:?}", c));
                v.push_back_mut(c);
            }
            desc.push_str(" ]");
            let arg = match ch.below(6) {
                0 => Cell::Int(65),
                1 => Cell::Nil,
                2 => Cell::Real(2.0),
                _ => Cell::from(v),
            };
            let mut xs = xs::fresh();
            let a = run1(&mut xs, arg.clone(), ">bitstr");
            let b = run1(&mut xs, arg.clone(), enc);
            match (&a, &b) {
                (Err(p), _) => out.fail(format!("panic in >bitstr: {}", p), desc.clone()),
                (_, Err(p)) => out.fail(format!("panic in {}: {}", enc, p), desc.clone()),
                (Ok(Err(_)), Ok(Ok(r))) => out.fail(format!("{}: accepts an input >bitstr rejects", enc), format!("{:?} -> {:?}", arg, r)),
                (Ok(Ok(bs)), Ok(Err(e))) => {
                    let bytemult = bs.bitstr().map(|b| b.len() % 8 == 0).unwrap_or(false);
                    if bytemult {
                        out.fail(format!("{}: rejects an input >bitstr accepts (vector)", enc), format!("{:?} -> {:?}", arg, e));
                    }
                }
                _ => {}
            }
            out.nontrivial = matches!(a, Ok(Err(_)));
            out.class("acceptance");
            out.hash = hash_of(&("acc", ci, desc.clone(), format!("{:?}", arg)));
            if ctx.want_render || out.fail.is_some() {
                out.render = Some(format!("acceptance: {} on {:?}", enc, arg));
            }
        }
    }
    out
}
