// C05 — number <-> bits codecs are exact inverses and independent of alignment.
use crate::common::*;
use crate::xs;
use crate::PropDef;
use xeh::bitstr::{Bitstr, Byteorder, BIG, LITTLE};
use xeh::prelude::*;

pub const DEF: PropDef = PropDef {
    id: "C05",
    rule: "systematic grid: every width 1..=128 x {big,little} x boundary values (0, +-1, +-2^k, 2^k+-1, type extremes) with the field embedded at all 8 bit \
offsets in junk, signed and unsigned decode, compared with a reference codec on Vec<bool> written from the statement (little = consecutive 8-bit groups from \
the start of the value, group i weighted 2^(8i)); byte-multiple widths also against to_le_bytes/to_be_bytes; random part: random width/order/value/offset/junk, \
f32/f64 bit patterns of every class at every offset, and the same through the language words (int! uint! uN! iN! fN! / int uint uN iN fN float with the ambient order selected by big/little, by a store into the `big?` variable after the opposite word, or by the save/restore idiom). \
Non-trivial = bit offset != 0 or width not a byte multiple; distinct = hash of (kind,width,order,value,offset)",
    assumptions: &[
        "`128 uint` is pinned by the existing suite to report integer overflow and is expected as such",
        "f32 through the language is compared as the exactly representable f64 (NaN: NaN-ness only)",
    ],
    max_len: 64,
    quick_cases: 40_000,
    thorough_cases: 2_000_000,
    case,
    systematic: Some(systematic),
    both_profiles_quick: true,
    max_shrink_iters: 3000,
    exhaustive_note: Some("width 1..=128 x 2 byte orders x boundary value set x 8 bit offsets x {signed,unsigned} is enumerated completely by the systematic part"),
};

// ---- reference codec ---------------------------------------------------
pub fn ref_encode(v: i128, w: usize, big: bool) -> Vec<bool> {
    let u = v as u128;
    let bit = |k: usize| -> bool { k < 128 && (u >> k) & 1 == 1 };
    let mut out = Vec::with_capacity(w);
    if big {
        for k in (0..w).rev() {
            out.push(bit(k));
        }
    } else {
        let mut i = 0;
        while i < w {
            let n = (w - i).min(8);
            // group holds value bits [i, i+n), most significant first
            for k in (i..i + n).rev() {
                out.push(bit(k));
            }
            i += n;
        }
    }
    out
}

pub fn ref_decode_uint(bits: &[bool], big: bool) -> u128 {
    let mut acc: u128 = 0;
    if big {
        for b in bits {
            acc = (acc << 1) | (*b as u128);
        }
    } else {
        let mut i = 0;
        for g in bits.chunks(8) {
            let mut gv: u128 = 0;
            for b in g {
                gv = (gv << 1) | (*b as u128);
            }
            acc |= gv << i;
            i += 8;
        }
    }
    acc
}

fn sign_extend(u: u128, w: usize) -> i128 {
    if w >= 128 || w == 0 {
        u as i128
    } else {
        let sh = (128 - w) as u32;
        ((u << sh) as i128) >> sh
    }
}

pub fn ref_decode_int(bits: &[bool], big: bool) -> i128 {
    sign_extend(ref_decode_uint(bits, big), bits.len())
}

fn reduce_unsigned(v: i128, w: usize) -> u128 {
    if w >= 128 {
        v as u128
    } else {
        (v as u128) & ((1u128 << w) - 1)
    }
}

fn reduce_signed(v: i128, w: usize) -> i128 {
    sign_extend(reduce_unsigned(v, w), w)
}

fn order(big: bool) -> Byteorder {
    if big {
        BIG
    } else {
        LITTLE
    }
}

fn oname(big: bool) -> &'static str {
    if big {
        "big"
    } else {
        "little"
    }
}

/// source that makes `big` the ambient byte order: the word itself, a store into the `big?` variable after the
/// opposite word, or the save / restore idiom around the opposite word
fn set_order(ch: &mut Choices, big: bool) -> String {
    match ch.weighted(&[5, 2, 2]) {
        0 => oname(big).to_string(),
        1 => format!("{} {} ! big?", oname(!big), if big { 1 } else { 0 }),
        _ => format!("{} big? var sv_order {} sv_order ! big?", oname(big), oname(!big)),
    }
}

/// junk(off bits) + field + junk(tail bits)
fn in_junk(field: &[bool], off: usize, junk_seed: u64, tail: usize) -> Vec<bool> {
    let mut all: Vec<bool> = Vec::new();
    let mut s = junk_seed | 1;
    let mut next = || {
        s ^= s << 13;
        s ^= s >> 7;
        s ^= s << 17;
        s & 1 == 1
    };
    for _ in 0..off {
        all.push(next());
    }
    all.extend_from_slice(field);
    for _ in 0..tail {
        all.push(next());
    }
    all
}

/// field embedded at bit offset `off` inside junk, returned as a sub-range
fn embed(field: &[bool], off: usize, junk_seed: u64, tail: usize) -> Bitstr {
    let whole = xs::bitstr_from_bits(&in_junk(field, off, junk_seed, tail));
    whole.substr(off, off + field.len()).expect("substr of embedded field")
}

/// checks on the Rust API for one (value,width,order); all 8 offsets
fn check_api(v: i128, w: usize, big: bool, junk: u64, out: &mut CaseOut) {
    let o = order(big);
    let want_bits = ref_encode(v, w, big);
    let enc = match guard(|| Bitstr::from_int(v, w, o)) {
        Ok(e) => e,
        Err(p) => {
            out.fail(format!("panic in from_int: {}", p), format!("from_int({}, {}, {})", v, w, oname(big)));
            return;
        }
    };
    if xs::bits_of(&enc) != want_bits {
        out.fail(
            format!("from_int: bits differ from reference ({})", oname(big)),
            format!("from_int({}, {}, {}) = {:?}, reference {:?}", v, w, oname(big), enc, xs::bitstr_from_bits(&want_bits)),
        );
        return;
    }
    if w % 8 == 0 {
        let bytes = enc.to_bytes().unwrap_or_default();
        let std_bytes: Vec<u8> = if big {
            v.to_be_bytes()[16 - w / 8..].to_vec()
        } else {
            v.to_le_bytes()[..w / 8].to_vec()
        };
        if bytes != std_bytes {
            out.fail(
                format!("from_int: differs from std {}-endian byte layout", oname(big)),
                format!("from_int({}, {}, {}) bytes {:02x?} std {:02x?}", v, w, oname(big), bytes, std_bytes),
            );
            return;
        }
    }
    let want_u = reduce_unsigned(v, w);
    let want_i = reduce_signed(v, w);
    for off in 0..8usize {
        let f = embed(&want_bits, off, junk.wrapping_add(off as u64), (junk as usize >> 3) % 11);
        let al = if off == 0 { "aligned" } else { "unaligned" };
        match guard(|| f.to_uint(o)) {
            Err(p) => {
                out.fail(format!("panic in to_uint: {}", p), format!("width {} offset {}", w, off));
                return;
            }
            Ok(u) => {
                if u != want_u {
                    out.fail(
                        format!("to_uint: wrong value ({}, {})", oname(big), al),
                        format!("value {} width {} {} at bit offset {}: to_uint = {:#x}, expected {:#x}", v, w, oname(big), off, u, want_u),
                    );
                    return;
                }
            }
        }
        match guard(|| f.to_int(o)) {
            Err(p) => {
                out.fail(format!("panic in to_int: {}", p), format!("width {} offset {}", w, off));
                return;
            }
            Ok(i) => {
                if i != want_i {
                    out.fail(
                        format!("to_int: wrong value ({}, {})", oname(big), al),
                        format!("value {} width {} {} at bit offset {}: to_int = {}, expected {}", v, w, oname(big), off, i, want_i),
                    );
                    return;
                }
            }
        }
    }
}

pub fn boundary_values() -> Vec<i128> {
    let mut v: Vec<i128> = vec![0, 1, -1, 2, -2, i128::MAX, i128::MIN, i128::MIN + 1, i128::MAX - 1];
    for k in 0..127 {
        let p = 1i128 << k;
        v.push(p);
        v.push(-p);
        v.push(p - 1);
        v.push(p + 1);
        v.push(-p - 1);
        v.push(-p + 1);
    }
    v.push(0x0123_4567_89ab_cdef_0f1e_2d3c_4b5a_6978);
    v.push(-0x0123_4567_89ab_cdef_0f1e_2d3c_4b5a_6978);
    v.push(0x5555_5555_5555_5555_5555_5555_5555_5555);
    v.push(-0x5555_5555_5555_5555_5555_5555_5555_5556);
    v.sort();
    v.dedup();
    v
}

fn systematic(k: usize, n: usize, cfg: &EngineCfg, stats: &mut Stats) {
    let vals = boundary_values();
    let mut f = |ch: &mut Choices, ctx: &CaseCtx| sys_case(ch, ctx);
    let mut idx = 0usize;
    for w in 1..=128u32 {
        for big in 0..2u32 {
            for vi in 0..vals.len() as u32 {
                idx += 1;
                if idx % n != k {
                    continue;
                }
                // the width-relative boundary values matter most: skip values far outside the width
                // only in the quick tier (thorough enumerates everything)
                if !cfg.thorough {
                    let v = vals[vi as usize];
                    let near = {
                        let m = v.unsigned_abs();
                        let bits = 128 - m.leading_zeros();
                        bits as i64 >= w as i64 - 9 && bits as i64 <= w as i64 + 9
                    };
                    if !near && vi % 16 != 0 {
                        continue;
                    }
                }
                let want_render = idx % 4099 == 0;
                if !run_direct(&[w, big, vi], cfg, stats, want_render, &mut f) {
                    return;
                }
            }
        }
    }
    stats.exhaustive_part = true;
}

fn sys_case(ch: &mut Choices, ctx: &CaseCtx) -> CaseOut {
    let mut out = CaseOut::default();
    let vals = boundary_values();
    let w = ch.raw() as usize;
    let big = ch.raw() == 1;
    let v = vals[(ch.raw() as usize).min(vals.len() - 1)];
    check_api(v, w, big, 0x9e3779b97f4a7c15 ^ (w as u64), &mut out);
    out.nontrivial = true; // all 8 offsets are exercised for every grid point
    out.class("grid");
    if w % 8 != 0 {
        out.class("width-not-byte-multiple");
    }
    out.hash = hash_of(&("grid", w, big, v));
    if ctx.want_render || out.fail.is_some() {
        out.render = Some(format!("grid: value {} width {} {} (offsets 0..7, signed+unsigned)", v, w, oname(big)));
    }
    out
}

fn gen_value(ch: &mut Choices) -> i128 {
    match ch.weighted(&[3, 3, 2, 2]) {
        0 => ch.range(-300, 300) as i128,
        1 => {
            let vals = boundary_values();
            vals[ch.below(vals.len())]
        }
        2 => ch.u128() as i128,
        _ => {
            let bits = ch.below(128) as u32;
            let x = ch.u128() >> (127 - bits);
            if ch.bool() {
                x as i128
            } else {
                (x as i128).wrapping_neg()
            }
        }
    }
}

fn gen_f64_bits(ch: &mut Choices) -> u64 {
    match ch.weighted(&[2, 2, 2, 2, 3]) {
        0 => *[0u64, 1 << 63, 0x7ff0_0000_0000_0000, 0xfff0_0000_0000_0000, 1, 0x8000_0000_0000_0001, 0x000f_ffff_ffff_ffff, 0x0010_0000_0000_0000, 0x7fef_ffff_ffff_ffff, 0x3ff0_0000_0000_0000]
            .get(ch.below(10))
            .unwrap(),
        1 => 0x7ff0_0000_0000_0000 | (ch.u64() & 0x000f_ffff_ffff_ffff) | 1 | ((ch.bool() as u64) << 63), // NaNs, any payload
        2 => ch.u64() & 0x800f_ffff_ffff_ffff,                                                          // subnormals
        3 => (ch.range(-1000, 1000) as f64 * 0.125).to_bits(),
        _ => ch.u64(),
    }
}

fn gen_f32_bits(ch: &mut Choices) -> u32 {
    match ch.weighted(&[2, 2, 2, 3]) {
        0 => *[0u32, 1 << 31, 0x7f80_0000, 0xff80_0000, 1, 0x8000_0001, 0x007f_ffff, 0x0080_0000, 0x7f7f_ffff, 0x3f80_0000].get(ch.below(10)).unwrap(),
        1 => 0x7f80_0000 | (ch.raw() & 0x007f_ffff) | 1 | ((ch.bool() as u32) << 31),
        2 => ch.raw() & 0x807f_ffff,
        _ => ch.raw(),
    }
}

pub fn case(ch: &mut Choices, ctx: &CaseCtx) -> CaseOut {
    let mut out = CaseOut::default();
    let kind = ch.weighted(&[4, 2, 4, 3]);
    match kind {
        0 => {
            // API integers
            let w = 1 + ch.below(128);
            let big = ch.bool();
            let v = gen_value(ch);
            let junk = ch.u64();
            check_api(v, w, big, junk, &mut out);
            out.nontrivial = true;
            out.class("api-int");
            out.hash = hash_of(&("api", w, big, v));
            if ctx.want_render || out.fail.is_some() {
                out.render = Some(format!("api: value {} width {} {}", v, w, oname(big)));
            }
        }
        1 => {
            // API floats at every offset
            let big = ch.bool();
            let o = order(big);
            let is32 = ch.bool();
            let junk = ch.u64();
            let mut desc = String::new();
            if is32 {
                let b = gen_f32_bits(ch);
                let x = f32::from_bits(b);
                let enc = Bitstr::from_f32(x, o);
                let std: Vec<u8> = if big { b.to_be_bytes().to_vec() } else { b.to_le_bytes().to_vec() };
                if enc.to_bytes().unwrap_or_default() != std {
                    out.fail(format!("from_f32: differs from std {} layout", oname(big)), format!("bits {:#x}", b));
                }
                let field = xs::bits_of(&enc);
                for off in 0..8 {
                    let f = embed(&field, off, junk, 5);
                    let back = f.to_f32(o).to_bits();
                    if back != b && out.fail.is_none() {
                        out.fail(
                            format!("to_f32: not bit-exact ({}, {})", oname(big), if off == 0 { "aligned" } else { "unaligned" }),
                            format!("bits {:#010x} at offset {} decode to {:#010x}", b, off, back),
                        );
                    }
                }
                desc = format!("api f32 bits {:#010x} {}", b, oname(big));
                out.hash = hash_of(&("f32", b, big));
            } else {
                let b = gen_f64_bits(ch);
                let x = f64::from_bits(b);
                let enc = Bitstr::from_f64(x, o);
                let std: Vec<u8> = if big { b.to_be_bytes().to_vec() } else { b.to_le_bytes().to_vec() };
                if enc.to_bytes().unwrap_or_default() != std {
                    out.fail(format!("from_f64: differs from std {} layout", oname(big)), format!("bits {:#x}", b));
                }
                let field = xs::bits_of(&enc);
                for off in 0..8 {
                    let f = embed(&field, off, junk, 3);
                    let back = f.to_f64(o).to_bits();
                    if back != b && out.fail.is_none() {
                        out.fail(
                            format!("to_f64: not bit-exact ({}, {})", oname(big), if off == 0 { "aligned" } else { "unaligned" }),
                            format!("bits {:#018x} at offset {} decode to {:#018x}", b, off, back),
                        );
                    }
                }
                desc = format!("api f64 bits {:#018x} {}", b, oname(big));
                out.hash = hash_of(&("f64", b, big));
            }
            out.nontrivial = true;
            out.class("api-float");
            if ctx.want_render || out.fail.is_some() {
                out.render = Some(desc);
            }
        }
        2 => lang_int(ch, ctx, &mut out),
        _ => lang_float(ch, ctx, &mut out),
    }
    out
}

fn eval_top(xs: &mut Xstate, src: &str) -> Result<Result<Cell, Xerr>, String> {
    xs.set_insn_limit(Some(10_000)).unwrap();
    let r = guard(|| xs.eval(src))?;
    Ok(match r {
        Ok(()) => xs.pop_data(),
        Err(e) => Err(e),
    })
}

/// integers through the language: pack word, then parse word after `off bits drop`
fn lang_int(ch: &mut Choices, ctx: &CaseCtx, out: &mut CaseOut) {
    let big = ch.bool();
    let signed = ch.bool();
    // fixed-width words or the generic int/uint
    let fixed = ch.chance(1, 3);
    let w = if fixed { *[8usize, 16, 32, 64].get(ch.below(4)).unwrap() } else { 1 + ch.below(128) };
    let explicit_order = fixed && ch.bool();
    let v = gen_value(ch);
    let off = ch.below(8);
    let tail = ch.below(9);
    let junk = ch.u64();
    let mut xs = xs::fresh();
    // --- pack
    let packw = if fixed {
        format!("{}{}{}!", if signed { "i" } else { "u" }, w, if explicit_order { if big { "be" } else { "le" } } else { "" })
    } else {
        format!("{} {}!", w, if signed { "int" } else { "uint" })
    };
    // when the word carries its own byte order, set the ambient one to the opposite
    let ambient_big = if explicit_order { !big } else { big };
    let src = format!("{} {} {}", set_order(ch, ambient_big), v, packw);
    let want_bits = ref_encode(v, w, big);
    let desc = format!("lang: `{}` then read back at bit offset {} ({} {} bits)", src, off, if signed { "signed" } else { "unsigned" }, w);
    match eval_top(&mut xs, &src) {
        Err(p) => out.fail(format!("panic in pack word: {}", p), desc.clone()),
        Ok(Err(e)) => out.fail("pack word fails on valid arguments", format!("{} -> {:?}", desc, e)),
        Ok(Ok(c)) => match c.value() {
            Cell::Bitstr(bs) if c.tags().is_none() => {
                if xs::bits_of(bs) != want_bits {
                    out.fail(
                        format!("pack word: bits differ from reference ({})", oname(big)),
                        format!("{} -> {:?}, reference {:?}", src, bs, xs::bitstr_from_bits(&want_bits)),
                    );
                }
            }
            other => out.fail("pack word: result is not a plain bit-string", format!("{} -> {:?}", src, other)),
        },
    }
    // --- parse
    if out.fail.is_none() {
        let field_in_junk = xs::bitstr_from_bits(&in_junk(&want_bits, off, junk, tail));
        let total = field_in_junk.len();
        xs.set_binary_input(field_in_junk).unwrap();
        let readw = if fixed {
            format!("{}{}{}", if signed { "i" } else { "u" }, w, if explicit_order { if big { "be" } else { "le" } } else { "" })
        } else {
            format!("{} {}", w, if signed { "int" } else { "uint" })
        };
        let src2 = format!("{} {} bits drop {}", set_order(ch, ambient_big), off, readw);
        let r = eval_top(&mut xs, &src2);
        match r {
            Err(p) => out.fail(format!("panic in read word: {}", p), format!("{} | {}", desc, src2)),
            Ok(Err(e)) => {
                if !signed && w == 128 && matches!(e, Xerr::IntegerOverflow) {
                    // pinned by the suite
                } else {
                    out.fail("read word fails on valid input", format!("{} | `{}` -> {:?}", desc, src2, e));
                }
            }
            Ok(Ok(c)) => {
                let want: i128 = if signed { reduce_signed(v, w) } else { reduce_unsigned(v, w) as i128 };
                if !signed && w == 128 {
                    out.fail("128-bit unsigned read succeeded (suite pins overflow)", src2.clone());
                } else {
                    match c.value() {
                        Cell::Int(i) if *i == want => {}
                        other => out.fail(
                            format!("read word: wrong value ({}, {})", oname(big), if off == 0 { "aligned" } else { "unaligned" }),
                            format!("{} | `{}` -> {:?}, expected {}", desc, src2, other, want),
                        ),
                    }
                }
                // offset advanced by exactly off + w
                if out.fail.is_none() {
                    if let Ok(Ok(o)) = eval_top(&mut xs, "offset") {
                        if o.value() != &Cell::from(off + w) {
                            out.fail("read word: offset not advanced by the width", format!("{}: offset {:?}, expected {} of {}", src2, o, off + w, total));
                        }
                    }
                }
            }
        }
    }
    out.nontrivial = off != 0 || w % 8 != 0;
    out.class("lang-int");
    if off != 0 {
        out.class("unaligned-offset");
    }
    if w % 8 != 0 {
        out.class("width-not-byte-multiple");
    }
    out.hash = hash_of(&("lang", w, big, signed, fixed, explicit_order, v, off));
    if ctx.want_render || out.fail.is_some() {
        out.render = Some(desc);
    }
}

fn lang_float(ch: &mut Choices, ctx: &CaseCtx, out: &mut CaseOut) {
    let big = ch.bool();
    let is32 = ch.bool();
    let form = ch.below(3); // 0: fN! ambient, 1: fNle!/fNbe!, 2: N float!
    let off = ch.below(8);
    let junk = ch.u64();
    let (x, nbits): (f64, usize) = if is32 {
        (f32::from_bits(gen_f32_bits(ch)) as f64, 32)
    } else {
        (f64::from_bits(gen_f64_bits(ch)), 64)
    };
    let mut xs = xs::fresh();
    let ambient_big = if form == 1 { !big } else { big };
    let packw = match form {
        0 => format!("f{}!", nbits),
        1 => format!("f{}{}!", nbits, if big { "be" } else { "le" }),
        _ => format!("{} float!", nbits),
    };
    let readw = match form {
        0 => format!("f{}", nbits),
        1 => format!("f{}{}", nbits, if big { "be" } else { "le" }),
        _ => format!("{} float", nbits),
    };
    let desc = format!("lang float: {} bits {:#018x} `{} <x> {}` read back `{}` at bit offset {}", nbits, x.to_bits(), oname(ambient_big), packw, readw, off);
    xs.push_data(Cell::Real(x)).unwrap();
    let std_bytes: Vec<u8> = if is32 {
        let b = (x as f32).to_bits();
        if big { b.to_be_bytes().to_vec() } else { b.to_le_bytes().to_vec() }
    } else {
        let b = x.to_bits();
        if big { b.to_be_bytes().to_vec() } else { b.to_le_bytes().to_vec() }
    };
    let mut field: Vec<bool> = Vec::new();
    let order_src0 = set_order(ch, ambient_big);
    match eval_top(&mut xs, &format!("{} {}", order_src0, packw)) {
        Err(p) => out.fail(format!("panic in float pack word: {}", p), desc.clone()),
        Ok(Err(e)) => out.fail("float pack word fails on a real", format!("{} -> {:?}", desc, e)),
        Ok(Ok(c)) => match c.value() {
            Cell::Bitstr(bs) => {
                let is_nan32 = is32 && x.is_nan();
                if !is_nan32 && bs.to_bytes().unwrap_or_default() != std_bytes {
                    out.fail(format!("float pack word: differs from std {} layout", oname(big)), format!("{} -> {:?}", desc, bs));
                }
                field = xs::bits_of(bs);
            }
            other => out.fail("float pack word: result is not a bit-string", format!("{:?}", other)),
        },
    }
    if out.fail.is_none() {
        let all = in_junk(&field, off, junk, 4);
        xs.set_binary_input(xs::bitstr_from_bits(&all)).unwrap();
        let order_src = set_order(ch, ambient_big);
        match eval_top(&mut xs, &format!("{} {} bits drop {}", order_src, off, readw)) {
            Err(p) => out.fail(format!("panic in float read word: {}", p), desc.clone()),
            Ok(Err(e)) => out.fail("float read word fails on valid input", format!("{} -> {:?}", desc, e)),
            Ok(Ok(c)) => match c.value() {
                Cell::Real(r) => {
                    let ok = if x.is_nan() { r.is_nan() && (is32 || r.to_bits() == x.to_bits()) } else { r.to_bits() == x.to_bits() };
                    if !ok {
                        out.fail(
                            format!("float read word: not bit-exact ({}, {})", oname(big), if off == 0 { "aligned" } else { "unaligned" }),
                            format!("{} -> {:#018x}", desc, r.to_bits()),
                        );
                    }
                }
                other => out.fail("float read word: result is not a real", format!("{:?}", other)),
            },
        }
    }
    out.nontrivial = off != 0;
    out.class("lang-float");
    out.hash = hash_of(&("langf", nbits, big, form, x.to_bits(), off));
    if ctx.want_render || out.fail.is_some() {
        out.render = Some(desc);
    }
}
