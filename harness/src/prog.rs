// Control-flow program generator, renderer and independent structural
// (tree-walking) reference evaluator.  Used by C01 and, as a program source,
// by C02 / C14 / C15.
use crate::common::*;

#[derive(Clone, Debug, PartialEq)]
pub enum V {
    Int(i128),
    Flag(bool),
    Nil,
}

impl V {
    pub fn render(&self) -> String {
        match self {
            V::Int(i) => format!("{}", i),
            V::Flag(true) => "true".into(),
            V::Flag(false) => "false".into(),
            V::Nil => "nil".into(),
        }
    }
}

#[derive(Clone, Copy, Debug, PartialEq)]
pub enum Prim {
    Dup, Drop, Swap, Over, Rot, Depth,
    Add, Sub, Mul, Div, Lt, Gt, Le, Ge, Eq, Ne, Neg, Min, Max,
    NilQ, Equal, Print, I, J, K, Break, Not,
}

impl Prim {
    pub fn text(&self) -> &'static str {
        use Prim::*;
        match self {
            Dup => "dup", Drop => "drop", Swap => "swap", Over => "over", Rot => "rot", Depth => "depth",
            Add => "+", Sub => "-", Mul => "*", Div => "/", Lt => "<", Gt => ">", Le => "<=", Ge => ">=", Eq => "==", Ne => "<>",
            Neg => "neg", Min => "min", Max => "max", NilQ => "nil?", Equal => "equal?", Print => "print",
            I => "I", J => "J", K => "K", Break => "break", Not => "not",
        }
    }
    pub fn arity(&self) -> usize {
        use Prim::*;
        match self {
            Depth | I | J | K | Break => 0,
            Dup | Drop | Neg | NilQ | Print | Not => 1,
            Rot => 3,
            _ => 2,
        }
    }
}

pub type Tid = usize; // token index

pub const MARKER: i128 = -987654321012;

#[derive(Clone, Debug)]
pub enum Node {
    Lit { tok: Tid, val: V },
    Prim { tok: Tid, op: Prim },
    If { t_if: Tid, then_b: Vec<Node>, else_b: Option<Vec<Node>> },
    Case { arms: Vec<CaseArm>, default: Vec<Node> },
    Until { body: Vec<Node>, t_until: Tid, infinite: bool },
    While { pre: Vec<Node>, t_while: Tid, body: Vec<Node> },
    Repeat { body: Vec<Node>, infinite: bool },
    Do { t_do: Tid, body: Vec<Node>, t_loop: Tid },
    Local { t_name: Tid, slot: usize },
    LocalRef { tok: Tid, slot: usize },
    VarDef { t_name: Tid, var: usize },
    Store { t_name: Tid, var: usize },
    VarRef { tok: Tid, var: usize },
    Call { tok: Tid, def: usize },
    Def { def: usize },
}

#[derive(Clone, Debug)]
pub struct CaseArm {
    pub matcher: Vec<Node>,
    pub t_of: Tid,
    pub body: Vec<Node>,
}

#[derive(Clone, Debug)]
pub struct DefBody {
    pub name: String,
    pub body: Vec<Node>,
    pub nslots: usize,
}

#[derive(Clone, Debug)]
pub struct Token {
    pub text: String,
    pub chunk: usize,
    /// byte span inside the rendered chunk
    pub start: usize,
    pub end: usize,
    /// must be separated from the previous token by exactly one whitespace run (name after : local ! var)
    pub glued: bool,
}

#[derive(Clone, Debug, Default)]
pub struct Prog {
    pub tokens: Vec<Token>,
    pub chunks: Vec<Vec<Node>>,
    pub defs: Vec<DefBody>,
    pub nvars: usize,
    pub var_names: Vec<String>,
    /// chunk in which each variable is defined
    pub var_chunk: Vec<usize>,
    pub sources: Vec<String>,
    /// classes observed while generating
    pub features: Vec<&'static str>,
}

// ---------------------------------------------------------------------------
// generator
// ---------------------------------------------------------------------------
pub struct GenOpts {
    pub max_nodes: usize,
    pub max_depth: usize,
    pub allow_errors: bool,
    pub allow_infinite: bool,
    pub allow_print: bool,
    pub allow_gap_locals: bool,
    pub multi_chunk: bool,
}

impl GenOpts {
    pub fn quick() -> Self {
        GenOpts { max_nodes: 40, max_depth: 5, allow_errors: true, allow_infinite: true, allow_print: true, allow_gap_locals: true, multi_chunk: true }
    }
    pub fn thorough() -> Self {
        GenOpts { max_nodes: 120, max_depth: 7, ..Self::quick() }
    }
}

struct Scope {
    /// names of words visible (latest wins): (name, def id)
    words: Vec<(String, usize)>,
    /// global vars visible: (name, var id)
    vars: Vec<(String, usize)>,
}

struct FnCtx {
    /// declared locals in declaration order: (name, slot)
    locals: Vec<(String, usize)>,
}

struct Gen<'a, 'b> {
    ch: &'a mut Choices<'b>,
    p: Prog,
    opts: GenOpts,
    budget: isize,
    scope: Scope,
    chunk: usize,
    fns: Vec<FnCtx>,
    /// static loop nesting: kinds of enclosing loops inside the current definition ('d' do, 'r' repeat, 'w' while-body, 'u' until)
    loops: Vec<char>,
    /// nesting depth of control structures in the current chunk (var is only legal at 0 and outside definitions)
    nest: usize,
}

const WORD_NAMES: [&str; 4] = ["f0", "f1", "f2", "f3"];
const VAR_NAMES: [&str; 4] = ["g0", "g1", "g2", "g3"];
const LOCAL_NAMES: [&str; 3] = ["x", "y", "z"];

impl<'a, 'b> Gen<'a, 'b> {
    fn tok(&mut self, text: &str) -> Tid {
        self.p.tokens.push(Token { text: text.to_string(), chunk: self.chunk, start: 0, end: 0, glued: false });
        self.p.tokens.len() - 1
    }
    fn tok_glued(&mut self, text: &str) -> Tid {
        let t = self.tok(text);
        self.p.tokens[t].glued = true;
        t
    }
    fn feature(&mut self, f: &'static str) {
        if !self.p.features.contains(&f) {
            self.p.features.push(f);
        }
    }
    fn lit_int(&mut self, v: i128) -> Node {
        let t = self.tok(&format!("{}", v));
        Node::Lit { tok: t, val: V::Int(v) }
    }
    fn prim(&mut self, op: Prim) -> Node {
        let t = self.tok(op.text());
        Node::Prim { tok: t, op }
    }

    fn small_int(&mut self) -> i128 {
        match self.ch.weighted(&[8, 2, 1]) {
            0 => self.ch.range(-3, 9) as i128,
            1 => self.ch.range(-100, 100) as i128,
            _ => *[i64::MAX as i128, i64::MIN as i128, (i64::MAX as i128) + 1, i128::MAX, 1 << 40].get(self.ch.below(5)).unwrap(),
        }
    }

    /// statements that push exactly one integer (when everything is well-typed)
    fn expr_int(&mut self, out: &mut Vec<Node>, depth: usize) {
        self.budget -= 1;
        let in_loops = self.loops.iter().filter(|c| **c == 'd').count();
        let has_locals = self.fns.last().map(|f| !f.locals.is_empty()).unwrap_or(false);
        let w_deep = if depth == 0 || self.budget <= 0 { 0 } else { 3 };
        let k = self.ch.weighted(&[
            60,
            if self.scope.vars.is_empty() { 0 } else { 30 },
            if has_locals { 60 } else { 0 },
            if in_loops > 0 { 40 } else { 0 },
            w_deep * 10,
            8,
            if self.opts.allow_errors { 1 } else { 0 },
        ]);
        match k {
            0 => {
                let v = self.small_int();
                out.push(self.lit_int(v));
            }
            1 => {
                let i = self.ch.below(self.scope.vars.len());
                let (name, var) = self.scope.vars[self.scope.vars.len() - 1 - i].clone();
                // static resolution: the latest variable of that name
                let var = self.scope.vars.iter().rev().find(|(n, _)| *n == name).map(|x| x.1).unwrap_or(var);
                if let Some(slot) = self.local_slot(&name) {
                    // a local of the definition being compiled shadows the global of the same name
                    let t = self.tok(&name);
                    out.push(Node::LocalRef { tok: t, slot });
                    self.feature("local-shadows-global");
                } else {
                    let t = self.tok(&name);
                    out.push(Node::VarRef { tok: t, var });
                    if self.fns.len() >= 2 && self.fns[..self.fns.len() - 1].iter().any(|f| f.locals.iter().any(|(n, _)| *n == name)) {
                        self.feature("global-named-like-enclosing-local");
                    }
                }
            }
            2 => {
                let f = self.fns.last().unwrap();
                let i = self.ch.below(f.locals.len());
                let name = f.locals[i].0.clone();
                // the compiler resolves a name to the LAST declared local of that name
                let slot = f.locals.iter().rev().find(|(n, _)| *n == name).unwrap().1;
                let t = self.tok(&name);
                out.push(Node::LocalRef { tok: t, slot });
            }
            3 => {
                let op = match self.ch.below(in_loops.min(3)) {
                    0 => Prim::I,
                    1 => Prim::J,
                    _ => Prim::K,
                };
                out.push(self.prim(op));
                self.feature("loop-index");
            }
            4 => {
                self.expr_int(out, depth - 1);
                self.expr_int(out, depth - 1);
                let op = *[Prim::Add, Prim::Sub, Prim::Mul, Prim::Min, Prim::Max, Prim::Add, Prim::Sub].get(self.ch.below(7)).unwrap();
                out.push(self.prim(op));
            }
            5 => out.push(self.prim(Prim::Depth)),
            _ => {
                // index word outside / beyond the static loop nesting: dynamic visibility or the error arm
                let op = *[Prim::I, Prim::J, Prim::K].get(self.ch.below(3)).unwrap();
                out.push(self.prim(op));
                self.feature("index-beyond-static-nesting");
            }
        }
    }

    fn cond(&mut self, out: &mut Vec<Node>, depth: usize) {
        let k = self.ch.weighted(&[50, 30, 30, 10, if self.opts.allow_errors { 2 } else { 0 }]);
        match k {
            0 => {
                self.expr_int(out, depth.min(1));
                self.expr_int(out, depth.min(1));
                let op = *[Prim::Lt, Prim::Gt, Prim::Le, Prim::Ge, Prim::Eq, Prim::Ne].get(self.ch.below(6)).unwrap();
                out.push(self.prim(op));
            }
            1 => {
                let t = self.tok("true");
                out.push(Node::Lit { tok: t, val: V::Flag(true) });
            }
            2 => {
                let t = self.tok("false");
                out.push(Node::Lit { tok: t, val: V::Flag(false) });
            }
            3 => {
                let t = self.tok("nil");
                out.push(Node::Lit { tok: t, val: V::Nil });
            }
            _ => {
                // wrong-typed condition
                let v = self.small_int();
                out.push(self.lit_int(v));
                self.feature("wrong-typed-condition");
            }
        }
    }

    fn body(&mut self, depth: usize, may_be_empty: bool) -> Vec<Node> {
        let mut out = Vec::new();
        let n = if depth == 0 || self.budget <= 0 {
            self.ch.below(2)
        } else if may_be_empty && self.ch.chance(1, 6) {
            0
        } else {
            1 + self.ch.below(3)
        };
        if n == 0 {
            self.feature("empty-body");
        }
        for _ in 0..n {
            self.stmt(&mut out, depth);
        }
        out
    }

    fn can_break(&self) -> bool {
        // innermost loop decides: do / repeat / while-body accept break, until does not
        matches!(self.loops.last(), Some('d') | Some('r') | Some('w'))
    }

    fn stmt(&mut self, out: &mut Vec<Node>, depth: usize) {
        self.budget -= 1;
        let deep = depth > 0 && self.budget > 0;
        let in_fn = !self.fns.is_empty();
        let top = self.nest == 0 && !in_fn;
        let w = [
            50,                                           // 0 push expr
            if self.opts.allow_print { 30 } else { 0 },   // 1 expr print
            if self.scope.vars.is_empty() { 0 } else { 40 }, // 2 expr ! g
            20,                                           // 3 expr drop
            30,                                           // 4 shuffle
            if deep { 50 } else { 0 },                    // 5 if
            if deep { 30 } else { 0 },                    // 6 case
            if deep { 30 } else { 0 },                    // 7 begin until
            if deep { 30 } else { 0 },                    // 8 begin while repeat
            if deep { 20 } else { 0 },                    // 9 begin repeat
            if deep { 50 } else { 0 },                    // 10 do loop
            if self.can_break() { 40 } else { 0 },        // 11 break
            if in_fn { 70 } else { 0 },                   // 12 local
            if self.scope.words.is_empty() { 0 } else { 40 }, // 13 call
            if deep && self.p.defs.len() < 5 && self.fns.len() < 2 { if top { 40 } else { 10 } } else { 0 }, // 14 definition
            if top { 20 } else { 0 },                     // 15 var definition
            if self.opts.allow_errors { 1 } else { 0 },  // 16 bare word (likely underflow / type error)
        ];
        match self.ch.weighted(&w) {
            0 => self.expr_int(out, 2),
            1 => {
                self.expr_int(out, 1);
                out.push(self.prim(Prim::Print));
            }
            2 => {
                self.expr_int(out, 2);
                let i = self.ch.below(self.scope.vars.len());
                let name = self.scope.vars[i].0.clone();
                let var = self.scope.vars.iter().rev().find(|(n, _)| *n == name).unwrap().1;
                self.tok("!");
                let t = self.tok_glued(&name);
                out.push(Node::Store { t_name: t, var });
            }
            3 => {
                self.expr_int(out, 1);
                out.push(self.prim(Prim::Drop));
            }
            4 => {
                // a shuffle preceded by enough pushes to be well-formed most of the time
                let op = *[Prim::Dup, Prim::Swap, Prim::Over, Prim::Rot, Prim::Drop, Prim::Neg, Prim::NilQ, Prim::Equal].get(self.ch.below(8)).unwrap();
                let need = op.arity();
                let provide = if self.ch.chance(1, 30) { need.saturating_sub(1) } else { need };
                for _ in 0..provide {
                    self.expr_int(out, 0);
                }
                out.push(self.prim(op));
            }
            5 => {
                self.cond(out, depth);
                self.nest += 1;
                let t_if = self.tok("if");
                let then_b = self.body(depth - 1, true);
                let else_b = if self.ch.bool() {
                    self.tok("else");
                    Some(self.body(depth - 1, true))
                } else {
                    None
                };
                self.tok("then");
                self.nest -= 1;
                out.push(Node::If { t_if, then_b, else_b });
                self.feature("if");
            }
            6 => {
                self.expr_int(out, 1);
                self.nest += 1;
                self.tok("case");
                let narms = self.ch.below(4);
                let mut arms = Vec::new();
                for _ in 0..narms {
                    let mut matcher = Vec::new();
                    if self.ch.chance(1, 5) {
                        self.expr_int(&mut matcher, 1);
                    } else {
                        let v = self.ch.range(-3, 9) as i128;
                        matcher.push(self.lit_int(v));
                    }
                    let t_of = self.tok("of");
                    let body = self.body(depth - 1, true);
                    self.tok("endof");
                    arms.push(CaseArm { matcher, t_of, body });
                }
                // default part: usually drops the selector as the README shows
                let mut default = Vec::new();
                if self.ch.chance(3, 4) {
                    default.push(self.prim(Prim::Drop));
                }
                if self.ch.bool() {
                    let mut b = self.body(depth - 1, true);
                    default.append(&mut b);
                }
                self.tok("endcase");
                self.nest -= 1;
                out.push(Node::Case { arms, default });
                self.feature("case");
            }
            7 => {
                self.nest += 1;
                self.tok("begin");
                self.loops.push('u');
                let mut body = self.body(depth - 1, true);
                // loop condition: a counter on a global keeps most loops finite
                let mut infinite = false;
                let kind = self.ch.weighted(&[4, if self.scope.vars.is_empty() { 0 } else { 5 }, if self.opts.allow_infinite { 1 } else { 0 }, 1]);
                match kind {
                    0 => {
                        let t = self.tok("true");
                        body.push(Node::Lit { tok: t, val: V::Flag(true) });
                    }
                    1 => self.counter_cond(&mut body, true),
                    2 => {
                        let t = self.tok("false");
                        body.push(Node::Lit { tok: t, val: V::Flag(false) });
                        infinite = true;
                        self.feature("structurally-infinite");
                    }
                    _ => self.cond(&mut body, 1),
                }
                self.loops.pop();
                let t_until = self.tok("until");
                self.nest -= 1;
                out.push(Node::Until { body, t_until, infinite });
                if infinite {
                    self.marker(out);
                }
                self.feature("until");
            }
            8 => {
                self.nest += 1;
                self.tok("begin");
                self.loops.push('u'); // no break before `while`
                let mut pre = self.body(depth.saturating_sub(2), true);
                if !self.scope.vars.is_empty() && self.ch.chance(4, 5) {
                    self.counter_cond(&mut pre, false);
                } else {
                    self.cond(&mut pre, 1);
                }
                self.loops.pop();
                let t_while = self.tok("while");
                self.loops.push('w');
                let body = self.body(depth - 1, true);
                self.loops.pop();
                self.tok("repeat");
                self.nest -= 1;
                out.push(Node::While { pre, t_while, body });
                self.feature("while");
            }
            9 => {
                self.nest += 1;
                self.tok("begin");
                self.loops.push('r');
                let ntok_before = self.p.tokens.len();
                let mut body = self.body(depth - 1, true);
                // make most of these loops terminate through a break
                let want_break = !(self.opts.allow_infinite && self.ch.chance(1, 6));
                if want_break {
                    if self.ch.bool() && !self.scope.vars.is_empty() {
                        let mut c = Vec::new();
                        self.counter_cond(&mut c, true);
                        let t_if = self.tok("if");
                        let b = self.prim(Prim::Break);
                        self.tok("then");
                        body.append(&mut c);
                        body.push(Node::If { t_if, then_b: vec![b], else_b: None });
                    } else {
                        body.push(self.prim(Prim::Break));
                    }
                }
                self.loops.pop();
                let _ = ntok_before;
                let infinite = !has_own_break(&body);
                if infinite {
                    self.feature("structurally-infinite");
                }
                self.tok("repeat");
                self.nest -= 1;
                out.push(Node::Repeat { body, infinite });
                if infinite {
                    self.marker(out);
                }
                self.feature("repeat");
            }
            10 => {
                // limit start do ... loop : negative, equal (zero-trip) and reversed ranges included
                let (limit, start) = match self.ch.weighted(&[6, 2, 1, 1]) {
                    0 => {
                        let s = self.ch.range(-2, 3) as i128;
                        (s + 1 + self.ch.below(4) as i128, s)
                    }
                    1 => {
                        let s = self.ch.range(-2, 3) as i128;
                        (s, s)
                    }
                    2 => (self.ch.range(-3, 0) as i128, self.ch.range(1, 3) as i128),
                    _ => (self.small_int(), self.small_int().clamp(-5, 5)),
                };
                let trips = if limit > start { limit.saturating_sub(start).min(1000) } else { 0 };
                if trips == 0 {
                    self.feature("zero-trip");
                }
                if trips > 50 {
                    // keep generated loops short: huge literal ranges only burn fuel
                    out.push(self.lit_int(start + 3));
                } else if self.ch.chance(1, 40) && self.opts.allow_errors {
                    let t = self.tok("nil");
                    out.push(Node::Lit { tok: t, val: V::Nil });
                    self.feature("bad-range");
                } else {
                    out.push(self.lit_int(limit));
                }
                out.push(self.lit_int(start));
                self.nest += 1;
                let t_do = self.tok("do");
                self.loops.push('d');
                let body = self.body(depth - 1, true);
                self.loops.pop();
                let t_loop = self.tok("loop");
                self.nest -= 1;
                out.push(Node::Do { t_do, body, t_loop });
                self.feature("do-loop");
            }
            11 => {
                out.push(self.prim(Prim::Break));
                self.feature("break");
            }
            12 => {
                self.expr_int(out, 1);
                let nlocals_declared = self.fns.last().unwrap().locals.len();
                if nlocals_declared >= 4 {
                    out.push(self.prim(Prim::Drop));
                    return;
                }
                let name = match self.ch.weighted(&[10, 2, 1]) {
                    0 => LOCAL_NAMES[self.ch.below(3)].to_string(),
                    1 => VAR_NAMES[self.ch.below(2)].to_string(),
                    _ => WORD_NAMES[self.ch.below(2)].to_string(),
                };
                let slot = nlocals_declared;
                if !self.loops.is_empty() {
                    self.feature("local-in-loop");
                }
                if self.nest_in_fn() > 0 && !self.opts.allow_gap_locals {
                    // conditional declaration could leave a gap: avoid by construction
                    out.push(self.prim(Prim::Drop));
                    return;
                }
                self.fns.last_mut().unwrap().locals.push((name.clone(), slot));
                self.tok("local");
                let t = self.tok_glued(&name);
                out.push(Node::Local { t_name: t, slot });
                self.feature("local");
            }
            13 => {
                let i = self.ch.below(self.scope.words.len());
                let name = self.scope.words[i].0.clone();
                let def = self.scope.words.iter().rev().find(|(n, _)| *n == name).unwrap().1;
                if self.ch.bool() {
                    let v = self.ch.range(0, 3) as i128;
                    out.push(self.lit_int(v));
                }
                if let Some(slot) = self.local_slot(&name) {
                    let t = self.tok(&name);
                    out.push(Node::LocalRef { tok: t, slot });
                    self.feature("local-shadows-word");
                } else {
                    let t = self.tok(&name);
                    out.push(Node::Call { tok: t, def });
                }
                self.feature("call");
            }
            14 => {
                let name = WORD_NAMES[self.ch.below(4)].to_string();
                if self.scope.words.iter().any(|(n, _)| *n == name) {
                    self.feature("redefinition");
                }
                let def = self.p.defs.len();
                self.p.defs.push(DefBody { name: name.clone(), body: Vec::new(), nslots: 0 });
                self.tok(":");
                self.tok_glued(&name);
                // visible inside its own body (recursion)
                self.scope.words.push((name.clone(), def));
                let saved_loops = std::mem::take(&mut self.loops);
                let saved_nest = self.nest;
                self.nest = 0;
                self.fns.push(FnCtx { locals: Vec::new() });
                // a recursion guard makes self-calls terminate most of the time
                let mut body = Vec::new();
                if self.ch.chance(1, 3) {
                    self.feature("recursion");
                    // ( n -- ... ) dup 0 > if 1 - NAME else drop then
                    body.push(self.prim(Prim::Dup));
                    body.push(self.lit_int(0));
                    body.push(self.prim(Prim::Gt));
                    let t_if = self.tok("if");
                    let mut tb = vec![self.lit_int(1), self.prim(Prim::Sub)];
                    let mut mid = self.body(depth.saturating_sub(2), true);
                    tb.append(&mut mid);
                    if let Some(slot) = self.local_slot(&name) {
                        let t = self.tok(&name);
                        tb.push(Node::LocalRef { tok: t, slot });
                    } else {
                        // the name is resolved where it stands: a definition of the same name nested in the
                        // statements above (compiled by now) is the one that gets called
                        let target = self.scope.words.iter().rev().find(|(n, _)| *n == name).map(|x| x.1).unwrap_or(def);
                        let t = self.tok(&name);
                        tb.push(Node::Call { tok: t, def: target });
                    }
                    self.tok("else");
                    let eb = vec![self.prim(Prim::Drop)];
                    self.tok("then");
                    body.push(Node::If { t_if, then_b: tb, else_b: Some(eb) });
                }
                let mut rest = self.body(depth - 1, true);
                body.append(&mut rest);
                let f = self.fns.pop().unwrap();
                self.loops = saved_loops;
                self.nest = saved_nest;
                self.tok(";");
                self.p.defs[def].body = body;
                self.p.defs[def].nslots = f.locals.len();
                out.push(Node::Def { def });
                self.feature("definition");
                if !self.fns.is_empty() {
                    self.feature("nested-definition");
                }
            }
            15 => {
                self.expr_int(out, 1);
                let name = VAR_NAMES[self.ch.below(4)].to_string();
                let var = self.p.nvars;
                self.p.nvars += 1;
                self.p.var_names.push(name.clone());
                self.p.var_chunk.push(self.chunk);
                self.tok("var");
                let t = self.tok_glued(&name);
                self.scope.vars.push((name, var));
                out.push(Node::VarDef { t_name: t, var });
            }
            _ => {
                let op = *[Prim::Drop, Prim::Add, Prim::Swap, Prim::Rot, Prim::Div, Prim::Not, Prim::Print, Prim::Over].get(self.ch.below(8)).unwrap();
                out.push(self.prim(op));
            }
        }
    }

    /// code that must never run: placed right after a structurally infinite loop
    fn marker(&mut self, out: &mut Vec<Node>) {
        let t = self.tok(&format!("{}", MARKER));
        out.push(Node::Lit { tok: t, val: V::Int(MARKER) });
        out.push(self.prim(Prim::Print));
    }

    /// slot of the last local of that name declared so far in the definition being compiled
    fn local_slot(&self, name: &str) -> Option<usize> {
        self.fns.last().and_then(|f| f.locals.iter().rev().find(|(n, _)| n == name).map(|x| x.1))
    }

    fn nest_in_fn(&self) -> usize {
        self.nest
    }

    /// `g 1 + ! g  g N >=` (until / break style: true ends the loop) or `g N <` with increment (while style)
    fn counter_cond(&mut self, out: &mut Vec<Node>, exit_when_true: bool) {
        let i = self.ch.below(self.scope.vars.len());
        let mut name = self.scope.vars[i].0.clone();
        if self.local_slot(&name).is_some() {
            // the counter must be the global: take a variable that no local of this definition shadows
            match self.scope.vars.iter().map(|v| v.0.clone()).find(|n| self.local_slot(n).is_none()) {
                Some(n) => name = n,
                None => {
                    let t = self.tok(if exit_when_true { "true" } else { "false" });
                    out.push(Node::Lit { tok: t, val: V::Flag(exit_when_true) });
                    return;
                }
            }
        }
        let var = self.scope.vars.iter().rev().find(|(n, _)| *n == name).unwrap().1;
        let n = self.ch.range(0, 4) as i128;
        let t = self.tok(&name);
        out.push(Node::VarRef { tok: t, var });
        out.push(self.lit_int(1));
        out.push(self.prim(Prim::Add));
        self.tok("!");
        let t = self.tok_glued(&name);
        out.push(Node::Store { t_name: t, var });
        let t = self.tok(&name);
        out.push(Node::VarRef { tok: t, var });
        out.push(self.lit_int(n));
        out.push(self.prim(if exit_when_true { Prim::Ge } else { Prim::Lt }));
    }
}

fn has_own_break(body: &[Node]) -> bool {
    body.iter().any(|n| match n {
        Node::Prim { op: Prim::Break, .. } => true,
        Node::If { then_b, else_b, .. } => has_own_break(then_b) || else_b.as_ref().map(|b| has_own_break(b)).unwrap_or(false),
        Node::Case { arms, default } => arms.iter().any(|a| has_own_break(&a.body) || has_own_break(&a.matcher)) || has_own_break(default),
        // a break inside a nested loop belongs to that loop; `until` loops cannot contain one at all
        _ => false,
    })
}

pub fn generate(ch: &mut Choices, opts: GenOpts) -> Prog {
    let max_nodes = opts.max_nodes;
    let multi = opts.multi_chunk;
    let mut g = Gen {
        ch,
        p: Prog::default(),
        budget: 0,
        opts,
        scope: Scope { words: Vec::new(), vars: Vec::new() },
        chunk: 0,
        fns: Vec::new(),
        loops: Vec::new(),
        nest: 0,
    };
    g.budget = (4 + g.ch.below(max_nodes)) as isize;
    let nchunks = if multi { 1 + g.ch.weighted(&[5, 3, 1]) } else { 1 };
    // prelude: a few globals so that counters exist
    let mut first: Vec<Node> = Vec::new();
    let nglob = g.ch.below(4);
    for i in 0..nglob {
        let v = g.ch.range(0, 2) as i128;
        first.push(g.lit_int(v));
        let name = VAR_NAMES[i].to_string();
        let var = g.p.nvars;
        g.p.nvars += 1;
        g.p.var_names.push(name.clone());
        g.p.var_chunk.push(0);
        g.tok("var");
        let t = g.tok_glued(&name);
        g.scope.vars.push((name, var));
        first.push(Node::VarDef { t_name: t, var });
    }
    let per = (g.budget / nchunks as isize).max(3);
    for c in 0..nchunks {
        g.chunk = c;
        let mut nodes = if c == 0 { std::mem::take(&mut first) } else { Vec::new() };
        let stop_at = g.budget - per;
        let mut guard = 0;
        while g.budget > stop_at && guard < 60 {
            g.stmt(&mut nodes, g.opts.max_depth);
            guard += 1;
        }
        g.p.chunks.push(nodes);
    }
    if g.p.chunks.len() > 1 {
        g.feature("multi-eval");
    }
    render(&mut g.p, g.ch);
    g.p
}

/// Lay the tokens out as source text with generated whitespace and comments.
fn render(p: &mut Prog, ch: &mut Choices) {
    let nchunks = p.chunks.len();
    let mut srcs = vec![String::new(); nchunks];
    for i in 0..p.tokens.len() {
        let c = p.tokens[i].chunk;
        let s = &mut srcs[c];
        if !s.is_empty() || ch.chance(1, 10) {
            // separator
            if p.tokens[i].glued {
                s.push_str(*[" ", "  ", "\n", "\t"].get(ch.weighted(&[10, 1, 1, 1])).unwrap());
            } else {
                match ch.weighted(&[20, 2, 2, 1, 1, 1]) {
                    0 => s.push(' '),
                    1 => s.push('\n'),
                    2 => s.push_str("  \t "),
                    3 => s.push_str(" \\ a comment ; then loop\n"),
                    4 => s.push_str(" \\( multi\n line if \\) "),
                    _ => s.push_str("\r\n"),
                }
            }
        }
        p.tokens[i].start = s.len();
        s.push_str(&p.tokens[i].text.clone());
        p.tokens[i].end = s.len();
    }
    p.sources = srcs;
}

// ---------------------------------------------------------------------------
// reference evaluator
// ---------------------------------------------------------------------------
#[derive(Clone, Copy, Debug, PartialEq, Eq, Hash)]
pub enum EKind {
    Underflow,
    Type,
    LoopStack,
    DivZero,
    Overflow,
}

#[derive(Clone, Debug)]
pub struct ModelErr {
    pub kind: EKind,
    pub tok: Tid,
    /// stack before the failing node ran, and how many operands it may have consumed
    pub stack_before: Vec<V>,
    pub arity: usize,
}

#[derive(Clone, Debug)]
pub enum Outcome {
    Done,
    Err(ModelErr),
    /// budget exhausted; `in_infinite` = inside a structurally infinite loop
    Fuel { in_infinite: bool },
    /// the program read a local that was never initialised in this call: no defined meaning
    Unspecified,
}

enum Sig {
    Normal,
    Break,
    Stop,
}

struct Frame {
    slots: Vec<Option<V>>,
}

pub struct Model<'p> {
    p: &'p Prog,
    pub stack: Vec<V>,
    pub vars: Vec<Option<V>>,
    pub out: String,
    loops: Vec<(i128, i128)>, // (current, limit)
    frames: Vec<Frame>,
    pub steps: u64,
    budget: u64,
    infinite_depth: usize,
    pub outcome: Outcome,
    pub events: Vec<&'static str>,
    pub max_call_depth: usize,
    pub loop_iterations: u64,
}

impl<'p> Model<'p> {
    pub fn new(p: &'p Prog, budget: u64) -> Self {
        Model {
            p,
            stack: Vec::new(),
            vars: vec![None; p.nvars],
            out: String::new(),
            loops: Vec::new(),
            frames: Vec::new(),
            steps: 0,
            budget,
            infinite_depth: 0,
            outcome: Outcome::Done,
            events: Vec::new(),
            max_call_depth: 0,
            loop_iterations: 0,
        }
    }

    /// after a failed chunk: the program is abandoned - its open calls and loops are gone - and the data stack is
    /// whatever the failing word left (given by the caller, already checked against `stack_before` / arity)
    pub fn recover(&mut self, stack: Vec<V>) {
        self.stack = stack;
        self.loops.clear();
        self.frames.clear();
        self.infinite_depth = 0;
        self.outcome = Outcome::Done;
    }

    pub fn loops_empty(&self) -> bool {
        self.loops.is_empty()
    }

    fn event(&mut self, e: &'static str) {
        if !self.events.contains(&e) {
            self.events.push(e);
        }
    }

    /// run one chunk (one eval call); returns false when execution stopped
    pub fn run_chunk(&mut self, c: usize) -> bool {
        let nodes = &self.p.chunks[c];
        // a new eval call starts with a fresh step budget (the limit is re-armed per call)
        self.steps = 0;
        matches!(self.run_nodes(nodes), Sig::Normal)
    }

    fn fail(&mut self, kind: EKind, tok: Tid, before: Vec<V>, arity: usize) -> Sig {
        self.outcome = Outcome::Err(ModelErr { kind, tok, stack_before: before, arity });
        Sig::Stop
    }

    fn tick(&mut self) -> bool {
        self.steps += 1;
        if self.steps > self.budget {
            self.outcome = Outcome::Fuel { in_infinite: self.infinite_depth > 0 };
            false
        } else {
            true
        }
    }

    fn run_nodes(&mut self, nodes: &[Node]) -> Sig {
        for n in nodes {
            match self.run_node(n) {
                Sig::Normal => {}
                other => return other,
            }
        }
        Sig::Normal
    }

    fn pop_cond(&mut self, tok: Tid) -> Result<bool, Sig> {
        let before = self.stack.clone();
        match self.stack.pop() {
            None => Err(self.fail(EKind::Underflow, tok, before, 1)),
            Some(V::Flag(b)) => Ok(b),
            Some(V::Nil) => Ok(false),
            Some(_) => Err(self.fail(EKind::Type, tok, before, 1)),
        }
    }

    fn run_node(&mut self, n: &Node) -> Sig {
        if !self.tick() {
            return Sig::Stop;
        }
        match n {
            Node::Lit { val, .. } => {
                self.stack.push(val.clone());
                Sig::Normal
            }
            Node::Prim { tok, op } => self.prim(*tok, *op),
            Node::If { t_if, then_b, else_b } => {
                let c = match self.pop_cond(*t_if) {
                    Ok(c) => c,
                    Err(s) => return s,
                };
                if c {
                    self.run_nodes(then_b)
                } else if let Some(e) = else_b {
                    self.run_nodes(e)
                } else {
                    Sig::Normal
                }
            }
            Node::Case { arms, default } => {
                for arm in arms {
                    match self.run_nodes(&arm.matcher) {
                        Sig::Normal => {}
                        other => return other,
                    }
                    if !self.tick() {
                        return Sig::Stop;
                    }
                    let before = self.stack.clone();
                    let m = match self.stack.pop() {
                        Some(m) => m,
                        None => return self.fail(EKind::Underflow, arm.t_of, before, 2),
                    };
                    let sel = match self.stack.last() {
                        Some(s) => s.clone(),
                        None => return self.fail(EKind::Underflow, arm.t_of, before, 2),
                    };
                    if m == sel {
                        self.stack.pop();
                        self.event("case-arm-taken");
                        return self.run_nodes(&arm.body);
                    }
                }
                self.event("case-default-taken");
                self.run_nodes(default)
            }
            Node::Until { body, t_until, infinite } => {
                if *infinite {
                    self.infinite_depth += 1;
                }
                let r = loop {
                    match self.run_nodes(body) {
                        Sig::Normal => {}
                        other => break other,
                    }
                    if !self.tick() {
                        break Sig::Stop;
                    }
                    self.loop_iterations += 1;
                    match self.pop_cond(*t_until) {
                        Ok(true) => break Sig::Normal,
                        Ok(false) => {}
                        Err(s) => break s,
                    }
                };
                if *infinite && !matches!(r, Sig::Stop) {
                    self.infinite_depth -= 1;
                }
                r
            }
            Node::While { pre, t_while, body } => loop {
                match self.run_nodes(pre) {
                    Sig::Normal => {}
                    other => break other,
                }
                if !self.tick() {
                    break Sig::Stop;
                }
                match self.pop_cond(*t_while) {
                    Ok(true) => {}
                    Ok(false) => break Sig::Normal,
                    Err(s) => break s,
                }
                self.loop_iterations += 1;
                match self.run_nodes(body) {
                    Sig::Normal => {}
                    Sig::Break => {
                        self.event("break-taken");
                        break Sig::Normal;
                    }
                    Sig::Stop => break Sig::Stop,
                }
                if !self.tick() {
                    break Sig::Stop;
                }
            },
            Node::Repeat { body, infinite } => {
                if *infinite {
                    self.infinite_depth += 1;
                }
                let r = loop {
                    self.loop_iterations += 1;
                    match self.run_nodes(body) {
                        Sig::Normal => {}
                        Sig::Break => {
                            self.event("break-taken");
                            break Sig::Normal;
                        }
                        Sig::Stop => break Sig::Stop,
                    }
                    if !self.tick() {
                        break Sig::Stop;
                    }
                };
                if *infinite && !matches!(r, Sig::Stop) {
                    self.infinite_depth -= 1;
                }
                r
            }
            Node::Do { t_do, body, .. } => {
                let before = self.stack.clone();
                let start = self.stack.pop();
                let limit = self.stack.pop();
                let (start, limit) = match (start, limit) {
                    (Some(V::Int(s)), Some(V::Int(l))) => (s, l),
                    (None, _) | (_, None) => return self.fail(EKind::Underflow, *t_do, before, 2),
                    _ => return self.fail(EKind::Type, *t_do, before, 2),
                };
                // the loop range lives in machine words
                let start = start as isize as i128;
                let limit = limit as isize as i128;
                if start >= limit {
                    self.event("zero-trip");
                    return Sig::Normal;
                }
                self.loops.push((start, limit));
                loop {
                    self.loop_iterations += 1;
                    match self.run_nodes(body) {
                        Sig::Normal => {}
                        Sig::Break => {
                            self.event("break-taken");
                            self.loops.pop();
                            break Sig::Normal;
                        }
                        Sig::Stop => break Sig::Stop,
                    }
                    if !self.tick() {
                        break Sig::Stop;
                    }
                    let l = self.loops.last_mut().unwrap();
                    l.0 += 1;
                    if l.0 >= l.1 {
                        self.loops.pop();
                        break Sig::Normal;
                    }
                }
            }
            Node::Local { t_name, slot } => {
                let before = self.stack.clone();
                let v = match self.stack.pop() {
                    Some(v) => v,
                    None => return self.fail(EKind::Underflow, *t_name, before, 1),
                };
                let f = self.frames.last_mut().expect("local outside a definition");
                if f.slots.len() <= *slot {
                    f.slots.resize(*slot + 1, None);
                }
                let gap = f.slots[..*slot].iter().any(|s| s.is_none());
                let reinit = f.slots[*slot].is_some();
                f.slots[*slot] = Some(v);
                if gap {
                    self.event("gap");
                }
                if reinit {
                    self.event("local-reinitialised");
                }
                Sig::Normal
            }
            Node::LocalRef { tok, slot } => {
                let f = self.frames.last().expect("local ref outside a definition");
                match f.slots.get(*slot).cloned().flatten() {
                    Some(v) => {
                        self.stack.push(v);
                        Sig::Normal
                    }
                    None => {
                        let _ = tok;
                        self.outcome = Outcome::Unspecified;
                        Sig::Stop
                    }
                }
            }
            Node::VarDef { t_name, var } | Node::Store { t_name, var } => {
                let before = self.stack.clone();
                match self.stack.pop() {
                    Some(v) => {
                        self.vars[*var] = Some(v);
                        Sig::Normal
                    }
                    None => self.fail(EKind::Underflow, *t_name, before, 1),
                }
            }
            Node::VarRef { var, .. } => {
                // a variable exists (holding nil) from the moment its definition is compiled
                let v = self.vars[*var].clone().unwrap_or(V::Nil);
                self.stack.push(v);
                Sig::Normal
            }
            Node::Call { def, .. } => {
                self.frames.push(Frame { slots: Vec::new() });
                self.max_call_depth = self.max_call_depth.max(self.frames.len());
                let body = &self.p.defs[*def].body;
                let r = self.run_nodes(body);
                if !matches!(r, Sig::Stop) {
                    self.frames.pop();
                    if !self.tick() {
                        return Sig::Stop;
                    }
                }
                match r {
                    // a break cannot leave a definition (the compiler rejects it); treat as normal
                    Sig::Break => Sig::Normal,
                    other => other,
                }
            }
            Node::Def { .. } => Sig::Normal,
        }
    }

    fn prim(&mut self, tok: Tid, op: Prim) -> Sig {
        use Prim::*;
        let before = self.stack.clone();
        let ar = op.arity();
        if self.stack.len() < ar {
            // which operand is found missing is an implementation detail; the kind is underflow
            return self.fail(EKind::Underflow, tok, before, ar);
        }
        let n = self.stack.len();
        match op {
            Dup => {
                let v = self.stack[n - 1].clone();
                self.stack.push(v);
            }
            Drop => {
                self.stack.pop();
            }
            Swap => self.stack.swap(n - 1, n - 2),
            Over => {
                let v = self.stack[n - 2].clone();
                self.stack.push(v);
            }
            Rot => self.stack.swap(n - 1, n - 3),
            Depth => self.stack.push(V::Int(n as i128)),
            Add | Sub | Mul | Div | Lt | Gt | Le | Ge | Eq | Ne | Min | Max => {
                let b = self.stack.pop().unwrap();
                let a = self.stack.pop().unwrap();
                let (a, b) = match (a, b) {
                    (V::Int(a), V::Int(b)) => (a, b),
                    _ => return self.fail(EKind::Type, tok, before, 2),
                };
                let r = match op {
                    Add => V::Int(a.wrapping_add(b)),
                    Sub => V::Int(a.wrapping_sub(b)),
                    Mul => V::Int(a.wrapping_mul(b)),
                    Div => {
                        if b == 0 {
                            return self.fail(EKind::DivZero, tok, before, 2);
                        }
                        match a.checked_div(b) {
                            Some(q) => V::Int(q),
                            None => return self.fail(EKind::Overflow, tok, before, 2),
                        }
                    }
                    Lt => V::Flag(a < b),
                    Gt => V::Flag(a > b),
                    Le => V::Flag(a <= b),
                    Ge => V::Flag(a >= b),
                    Eq => V::Flag(a == b),
                    Ne => V::Flag(a != b),
                    Min => V::Int(a.min(b)),
                    _ => V::Int(a.max(b)),
                };
                self.stack.push(r);
            }
            Neg => match self.stack.pop().unwrap() {
                V::Int(a) => match a.checked_neg() {
                    Some(x) => self.stack.push(V::Int(x)),
                    None => return self.fail(EKind::Overflow, tok, before, 1),
                },
                _ => return self.fail(EKind::Type, tok, before, 1),
            },
            Not => match self.stack.pop().unwrap() {
                V::Flag(a) => self.stack.push(V::Flag(!a)),
                _ => return self.fail(EKind::Type, tok, before, 1),
            },
            NilQ => {
                let v = self.stack.pop().unwrap();
                self.stack.push(V::Flag(v == V::Nil));
            }
            Equal => {
                let b = self.stack.pop().unwrap();
                let a = self.stack.pop().unwrap();
                self.stack.push(V::Flag(a == b));
            }
            Print => {
                let v = self.stack.pop().unwrap();
                self.out.push_str(&v.render());
            }
            I | J | K => {
                let depth = match op {
                    I => 0,
                    J => 1,
                    _ => 2,
                };
                if self.loops.len() <= depth {
                    return self.fail(EKind::LoopStack, tok, before, 0);
                }
                let l = self.loops[self.loops.len() - 1 - depth];
                self.stack.push(V::Int(l.0));
            }
            Break => return Sig::Break,
        }
        Sig::Normal
    }
}
