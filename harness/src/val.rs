// Value model shared by the collection / tag / meta properties: an independent
// representation of xeh values with the language's equality (same type, equal
// content, tags ignored), rendering to source text and conversion from cells.
use crate::common::*;
use crate::xs::{bits_lit, bits_of, str_lit};
use xeh::prelude::*;

#[derive(Clone, Debug, Hash)]
pub enum V {
    Nil,
    Flag(bool),
    Int(i128),
    /// f64 bit pattern (never NaN in generated values)
    Real(u64),
    Str(String),
    Bits(Vec<bool>),
    Vec(Vec<V>),
    /// association list with unique keys (under `veq`), insertion order irrelevant
    Map(Vec<(V, V)>),
    Tagged(Box<V>, Vec<(V, V)>),
}

impl V {
    pub fn real(x: f64) -> V {
        V::Real(x.to_bits())
    }
    pub fn strip(&self) -> &V {
        match self {
            V::Tagged(v, _) => v.strip(),
            v => v,
        }
    }
    pub fn type_name(&self) -> &'static str {
        match self.strip() {
            V::Nil => "nil",
            V::Flag(_) => "flag",
            V::Int(_) => "int",
            V::Real(_) => "real",
            V::Str(_) => "str",
            V::Bits(_) => "bitstr",
            V::Vec(_) => "vec",
            V::Map(_) => "map",
            V::Tagged(..) => "tag",
        }
    }
    pub fn is_tagged(&self) -> bool {
        matches!(self, V::Tagged(..))
    }
}

/// the language's equality: same type and equal content, tags ignored at every depth
pub fn veq(a: &V, b: &V) -> bool {
    match (a.strip(), b.strip()) {
        (V::Nil, V::Nil) => true,
        (V::Flag(x), V::Flag(y)) => x == y,
        (V::Int(x), V::Int(y)) => x == y,
        // (a NaN result is compared as 'also a NaN': the language's equality is not reflexive on it)
        (V::Real(x), V::Real(y)) => f64::from_bits(*x) == f64::from_bits(*y) || (f64::from_bits(*x).is_nan() && f64::from_bits(*y).is_nan()),
        (V::Str(x), V::Str(y)) => x == y,
        (V::Bits(x), V::Bits(y)) => x == y,
        (V::Vec(x), V::Vec(y)) => x.len() == y.len() && x.iter().zip(y.iter()).all(|(p, q)| veq(p, q)),
        (V::Map(x), V::Map(y)) => x.len() == y.len() && x.iter().all(|(k, v)| y.iter().any(|(k2, v2)| veq(k, k2) && veq(v, v2))),
        _ => false,
    }
}

/// equality that also compares tags (as association lists) at every depth
pub fn veq_tags(a: &V, b: &V) -> bool {
    let tags_of = |v: &V| -> Vec<(V, V)> {
        match v {
            V::Tagged(_, t) => t.clone(),
            _ => Vec::new(),
        }
    };
    let (ta, tb) = (tags_of(a), tags_of(b));
    // an empty tag map is still a wrapper in the implementation; the model treats "no tags" and "empty tags" alike
    let tags_eq = ta.len() == tb.len() && ta.iter().all(|(k, v)| tb.iter().any(|(k2, v2)| veq_tags(k, k2) && veq_tags(v, v2)));
    if !tags_eq {
        return false;
    }
    match (a.strip(), b.strip()) {
        (V::Vec(x), V::Vec(y)) => x.len() == y.len() && x.iter().zip(y.iter()).all(|(p, q)| veq_tags(p, q)),
        (V::Map(x), V::Map(y)) => x.len() == y.len() && x.iter().all(|(k, v)| y.iter().any(|(k2, v2)| veq(k, k2) && veq_tags(v, v2))),
        (p, q) => veq(p, q),
    }
}

pub fn map_get<'a>(m: &'a [(V, V)], k: &V) -> Option<&'a V> {
    m.iter().find(|(k2, _)| veq(k, k2)).map(|x| &x.1)
}

pub fn map_insert(m: &mut Vec<(V, V)>, k: V, v: V) {
    if let Some(p) = m.iter().position(|(k2, _)| veq(&k, k2)) {
        m[p] = (k, v);
    } else {
        m.push((k, v));
    }
}

pub fn map_remove(m: &mut Vec<(V, V)>, k: &V) {
    m.retain(|(k2, _)| !veq(k, k2));
}

pub fn real_lit(bits: u64) -> String {
    let x = f64::from_bits(bits);
    let s = format!("{:?}", x);
    if s.contains('.') && !s.contains('e') && !s.contains("inf") && !s.contains("NaN") {
        s
    } else {
        // the generators only produce values whose Debug form is a plain decimal
        format!("{:.1}", x)
    }
}

/// source text that evaluates to the value (pushes exactly one cell)
pub fn src(v: &V) -> String {
    match v {
        V::Nil => "nil".into(),
        V::Flag(b) => if *b { "true".into() } else { "false".into() },
        V::Int(i) => format!("{}", i),
        V::Real(b) => real_lit(*b),
        V::Str(s) => str_lit(s),
        V::Bits(b) => bits_lit(b),
        V::Vec(items) => {
            let mut s = String::from("[");
            for x in items {
                s.push(' ');
                s.push_str(&src(x));
            }
            s.push_str(" ]");
            s
        }
        V::Map(pairs) => {
            let mut s = String::from("{");
            for (k, x) in pairs {
                s.push(' ');
                s.push_str(&src(x));
                s.push(' ');
                s.push_str(&src(k));
            }
            s.push_str(" }");
            s
        }
        V::Tagged(x, tags) => {
            let mut s = src(x);
            s.push_str(" ^{");
            for (k, t) in tags {
                s.push(' ');
                s.push_str(&src(t));
                s.push(' ');
                s.push_str(&src(k));
            }
            s.push_str(" ^}");
            s
        }
    }
}

pub fn of_cell(c: &Cell) -> V {
    if let Some(tags) = c.tags() {
        let t: Vec<(V, V)> = tags.iter().map(|(k, v)| (of_cell(k), of_cell(v))).collect();
        return V::Tagged(Box::new(of_cell(c.value())), t);
    }
    match c {
        Cell::Nil => V::Nil,
        Cell::Flag(b) => V::Flag(*b),
        Cell::Int(i) => V::Int(*i),
        Cell::Real(r) => V::Real(r.to_bits()),
        Cell::Str(s) => V::Str(s.to_string()),
        Cell::Bitstr(b) => V::Bits(bits_of(b)),
        Cell::Vector(v) => V::Vec(v.iter().map(of_cell).collect()),
        Cell::Map(m) => V::Map(m.iter().map(|(k, v)| (of_cell(k), of_cell(v))).collect()),
        other => V::Str(format!("<unmodelled {:?}>", other)),
    }
}

pub fn show(v: &V) -> String {
    src(v)
}

// ---------------------------------------------------------------------------
// key ordering classes (known finding C12: the map orders keys with a partial
// comparison that answers Equal for incomparable values, so only keys that are
// all ints, all reals or all strings are kept apart)
// ---------------------------------------------------------------------------
pub fn key_class(v: &V) -> Option<u8> {
    match v.strip() {
        V::Int(_) => Some(0),
        V::Real(_) => Some(1),
        V::Str(_) => Some(2),
        _ => None,
    }
}

/// true when two distinct keys of the set are not mutually ordered
pub fn keys_exposed(keys: &[&V]) -> bool {
    for (i, a) in keys.iter().enumerate() {
        for b in keys.iter().skip(i + 1) {
            if !veq(a, b) && !(key_class(a).is_some() && key_class(a) == key_class(b)) {
                return true;
            }
        }
    }
    false
}

/// any map or tag map inside the value holds keys that are not mutually ordered
pub fn value_exposed(v: &V) -> bool {
    match v {
        V::Vec(items) => items.iter().any(value_exposed),
        V::Map(m) => {
            let ks: Vec<&V> = m.iter().map(|x| &x.0).collect();
            keys_exposed(&ks) || m.iter().any(|(k, x)| value_exposed(k) || value_exposed(x))
        }
        V::Tagged(x, t) => {
            let ks: Vec<&V> = t.iter().map(|x| &x.0).collect();
            keys_exposed(&ks) || value_exposed(x) || t.iter().any(|(k, x)| value_exposed(k) || value_exposed(x))
        }
        _ => false,
    }
}

pub fn contains_map(v: &V) -> bool {
    match v {
        V::Map(_) => true,
        V::Vec(items) => items.iter().any(contains_map),
        V::Tagged(x, _) => contains_map(x),
        _ => false,
    }
}

thread_local! {
    static SAFE: std::cell::Cell<bool> = std::cell::Cell::new(false);
}
/// safe mode: every generated map / tag map has keys of one ordered class
pub fn set_safe(b: bool) {
    SAFE.with(|s| s.set(b));
}
pub fn safe() -> bool {
    SAFE.with(|s| s.get())
}

pub fn gen_key_of_class(ch: &mut Choices, class: u8) -> V {
    match class {
        0 => V::Int(ch.range(-3, 6) as i128),
        1 => V::real(REALS[ch.below(REALS.len())]),
        _ => V::Str(STRS[ch.below(STRS.len())].to_string()),
    }
}

/// a key for an operation on a map with the given keys
pub fn gen_key_for(ch: &mut Choices, existing: &[(V, V)]) -> V {
    if !safe() {
        return gen_key(ch);
    }
    let class = existing.iter().find_map(|(k, _)| key_class(k)).unwrap_or_else(|| ch.below(3) as u8);
    let k = gen_key_of_class(ch, class);
    if ch.chance(1, 6) {
        // tagged key: equal to its untagged value
        V::Tagged(Box::new(k), vec![(V::Str("t".into()), V::Int(1))])
    } else {
        k
    }
}

// ---------------------------------------------------------------------------
// generators
// ---------------------------------------------------------------------------
pub const STRS: [&str; 10] = ["", "a", "b", "1", "ab", "héllo", "日本語", "a b", "x\"y", "zz"];
const REALS: [f64; 9] = [0.0, -0.0, 1.0, 1.5, -2.25, 2.0, 100.5, -1.0, 0.5];

pub fn gen_scalar(ch: &mut Choices) -> V {
    match ch.weighted(&[6, 3, 4, 1, 1, 2]) {
        0 => V::Int(match ch.weighted(&[8, 2, 1]) {
            0 => ch.range(-3, 6) as i128,
            1 => ch.range(-1000, 1000) as i128,
            _ => *[i128::MAX, i128::MIN, 1 << 64, -(1 << 63), u64::MAX as i128].get(ch.below(5)).unwrap(),
        }),
        1 => V::real(REALS[ch.below(REALS.len())]),
        2 => V::Str(STRS[ch.below(STRS.len())].to_string()),
        3 => V::Flag(ch.bool()),
        4 => V::Nil,
        _ => {
            let n = [0usize, 1, 4, 8, 8, 12, 16][ch.below(7)];
            V::Bits((0..n).map(|_| ch.bool()).collect())
        }
    }
}

/// keys chosen so that different types share a "look": 1, 1.0, "1", |01|, [ 1 ], true, nil ...
pub fn gen_key(ch: &mut Choices) -> V {
    match ch.weighted(&[6, 4]) {
        0 => {
            let pool: [V; 18] = [
                V::Int(1),
                V::real(1.0),
                V::Str("1".into()),
                V::Bits(vec![false, false, false, false, false, false, false, true]),
                V::Vec(vec![V::Int(1)]),
                V::Flag(true),
                V::Nil,
                V::Int(2),
                V::Str("a".into()),
                V::Str("b".into()),
                V::Map(vec![]),
                V::Vec(vec![]),
                V::Vec(vec![V::Int(2)]),
                V::Map(vec![(V::Str("a".into()), V::Int(1))]),
                V::Int(0),
                V::real(0.0),
                V::real(-0.0),
                V::Flag(false),
            ];
            pool[ch.below(pool.len())].clone()
        }
        _ => gen_value(ch, 1),
    }
}

pub fn gen_tags(ch: &mut Choices) -> Vec<(V, V)> {
    let n = ch.below(3);
    let mut t: Vec<(V, V)> = Vec::new();
    for _ in 0..n {
        let k = match ch.below(3) {
            0 => V::Str("k".into()),
            1 => V::Str("len".into()),
            _ if safe() => V::Str(STRS[ch.below(STRS.len())].to_string()),
            _ => gen_scalar(ch),
        };
        let v = gen_scalar(ch);
        map_insert(&mut t, k, v);
    }
    t
}

pub fn gen_value(ch: &mut Choices, depth: usize) -> V {
    let w_deep = if depth == 0 { 0 } else { 3 };
    match ch.weighted(&[10, w_deep, w_deep, 1]) {
        0 => gen_scalar(ch),
        1 => {
            let n = ch.below(4);
            V::Vec((0..n).map(|_| gen_value(ch, depth - 1)).collect())
        }
        2 => {
            let n = ch.below(3);
            let mut m: Vec<(V, V)> = Vec::new();
            let class = ch.below(3) as u8;
            for _ in 0..n {
                let k = if safe() { gen_key_of_class(ch, class) } else { gen_scalar(ch) };
                let v = gen_value(ch, depth - 1);
                map_insert(&mut m, k, v);
            }
            V::Map(m)
        }
        _ => {
            let inner = gen_value(ch, depth.saturating_sub(1));
            match inner {
                V::Tagged(..) => inner,
                other => {
                    let t = gen_tags(ch);
                    V::Tagged(Box::new(other), t)
                }
            }
        }
    }
}

// ---------------------------------------------------------------------------
// building cells through the API
// ---------------------------------------------------------------------------
pub fn to_cell(v: &V) -> Cell {
    match v {
        V::Nil => Cell::Nil,
        V::Flag(b) => Cell::Flag(*b),
        V::Int(i) => Cell::Int(*i),
        V::Real(b) => Cell::Real(f64::from_bits(*b)),
        V::Str(s) => Cell::Str(Xstr::from(s.as_str())),
        V::Bits(b) => Cell::Bitstr(crate::xs::bitstr_from_bits(b)),
        V::Vec(items) => {
            let mut x = Xvec::new();
            for i in items {
                x.push_back_mut(to_cell(i));
            }
            Cell::Vector(x)
        }
        V::Map(pairs) => {
            let mut m = Xmap::new();
            for (k, x) in pairs {
                m.insert_mut(to_cell(k), to_cell(x));
            }
            Cell::Map(m)
        }
        V::Tagged(x, tags) => {
            let mut m = Xmap::new();
            for (k, t) in tags {
                m.insert_mut(to_cell(k), to_cell(t));
            }
            to_cell(x).with_tags(m)
        }
    }
}
