// Shared machinery: choice-sequence decoding, the proptest-driven engine,
// statistics/evidence, known findings, replay files.
use std::cell::RefCell;
use std::collections::{BTreeMap, HashSet};
use std::hash::{Hash, Hasher};

// ---------------------------------------------------------------------------
// Choice sequences.  Every generated case is a pure function of a Vec<u32>.
// proptest generates and shrinks the vector; libFuzzer supplies it as bytes.
// In `direct` mode (systematic enumeration, hand-written witnesses) a value is
// taken literally as an index.
// ---------------------------------------------------------------------------
pub struct Choices<'a> {
    data: &'a [u32],
    pos: usize,
    pub direct: bool,
}

impl<'a> Choices<'a> {
    pub fn new(data: &'a [u32], direct: bool) -> Self {
        Choices { data, pos: 0, direct }
    }
    pub fn raw(&mut self) -> u32 {
        let v = self.data.get(self.pos).copied().unwrap_or(0);
        self.pos += 1;
        v
    }
    pub fn data_slice(&self) -> &[u32] {
        self.data
    }
    pub fn exhausted(&self) -> bool {
        self.pos >= self.data.len()
    }
    pub fn used(&self) -> usize {
        self.pos
    }
    /// uniform index in 0..n, monotone in the raw value (0 shrinks to 0)
    pub fn below(&mut self, n: usize) -> usize {
        let r = self.raw();
        if n <= 1 {
            return 0;
        }
        if self.direct {
            (r as usize).min(n - 1)
        } else {
            ((r as u64 * n as u64) >> 32) as usize
        }
    }
    /// inclusive integer range
    pub fn range(&mut self, lo: i64, hi: i64) -> i64 {
        debug_assert!(lo <= hi);
        lo + self.below((hi - lo + 1) as usize) as i64
    }
    pub fn bool(&mut self) -> bool {
        self.below(2) == 1
    }
    /// true with probability num/den; shrinks towards false
    pub fn chance(&mut self, num: usize, den: usize) -> bool {
        if self.direct {
            return self.raw() != 0;
        }
        self.below(den) >= den - num
    }
    /// weighted index; index 0 is the shrink target
    pub fn weighted(&mut self, w: &[u32]) -> usize {
        if self.direct {
            return self.below(w.len());
        }
        let total: u64 = w.iter().map(|x| *x as u64).sum();
        let r = self.raw();
        let mut x = (r as u64 * total) >> 32;
        for (i, wi) in w.iter().enumerate() {
            if x < *wi as u64 {
                return i;
            }
            x -= *wi as u64;
        }
        w.len() - 1
    }
    pub fn pick<T: Clone>(&mut self, xs: &[T]) -> T {
        xs[self.below(xs.len())].clone()
    }
    pub fn u64(&mut self) -> u64 {
        ((self.raw() as u64) << 32) | self.raw() as u64
    }
    pub fn u128(&mut self) -> u128 {
        ((self.u64() as u128) << 64) | self.u64() as u128
    }
    pub fn byte(&mut self) -> u8 {
        if self.direct {
            self.raw() as u8
        } else {
            (self.raw() >> 24) as u8
        }
    }
    pub fn bytes(&mut self, n: usize) -> Vec<u8> {
        (0..n).map(|_| self.byte()).collect()
    }
}

/// libFuzzer input bytes -> choice sequence (little-endian u32s, last one zero-padded)
pub fn bytes_to_choices(data: &[u8]) -> Vec<u32> {
    data.chunks(4)
        .map(|c| {
            let mut b = [0u8; 4];
            b[..c.len()].copy_from_slice(c);
            u32::from_le_bytes(b)
        })
        .collect()
}

pub fn hash_of<T: Hash>(t: &T) -> u64 {
    let mut h = std::collections::hash_map::DefaultHasher::new();
    t.hash(&mut h);
    h.finish()
}

// ---------------------------------------------------------------------------
// Result of one case
// ---------------------------------------------------------------------------
#[derive(Clone, Debug)]
pub struct Failure {
    /// stable semantic signature (used for known findings)
    pub sig: String,
    /// human readable detail
    pub detail: String,
}

#[derive(Default)]
pub struct CaseOut {
    pub nontrivial: bool,
    pub hash: u64,
    pub classes: Vec<&'static str>,
    /// rendered case, filled only when CaseCtx::want_render
    pub render: Option<String>,
    pub fail: Option<Failure>,
    /// case did not exercise the property at all (counted, not a pass)
    pub discarded: bool,
    /// the case avoided a known finding by construction
    pub excluded_known: u32,
}

impl CaseOut {
    pub fn class(&mut self, c: &'static str) {
        if !self.classes.contains(&c) {
            self.classes.push(c);
        }
    }
    pub fn fail(&mut self, sig: impl Into<String>, detail: impl Into<String>) {
        if self.fail.is_none() {
            self.fail = Some(Failure { sig: sig.into(), detail: detail.into() });
        }
    }
}

pub struct CaseCtx {
    pub want_render: bool,
    pub tier_thorough: bool,
    /// release-profile build of the harness (overflow checks off)
    pub release: bool,
}

// ---------------------------------------------------------------------------
// Panic capture
// ---------------------------------------------------------------------------
thread_local! {
    static LAST_PANIC: RefCell<Option<String>> = RefCell::new(None);
}

pub fn install_panic_hook() {
    std::panic::set_hook(Box::new(|info| {
        let msg = if let Some(s) = info.payload().downcast_ref::<&str>() {
            s.to_string()
        } else if let Some(s) = info.payload().downcast_ref::<String>() {
            s.clone()
        } else {
            "<non-string panic>".to_string()
        };
        let loc = info
            .location()
            .map(|l| {
                let f = l.file();
                let f = f.rsplit('/').next().unwrap_or(f);
                format!("{}", f)
            })
            .unwrap_or_default();
        LAST_PANIC.with(|p| *p.borrow_mut() = Some(format!("{} @{}", msg, loc)));
    }));
}

pub fn take_panic() -> Option<String> {
    LAST_PANIC.with(|p| p.borrow_mut().take())
}

/// normalise numbers in a message so that signatures are stable
pub fn normalise(msg: &str) -> String {
    let mut out = String::new();
    let mut in_num = false;
    for c in msg.chars() {
        if c.is_ascii_digit() {
            if !in_num {
                out.push('N');
                in_num = true;
            }
        } else {
            in_num = false;
            out.push(c);
        }
    }
    out
}

/// run f, turning a panic into Err(normalised message)
pub fn guard<T>(f: impl FnOnce() -> T) -> Result<T, String> {
    match std::panic::catch_unwind(std::panic::AssertUnwindSafe(f)) {
        Ok(v) => Ok(v),
        Err(_) => Err(normalise(&take_panic().unwrap_or_else(|| "panic".into()))),
    }
}

// ---------------------------------------------------------------------------
// Known findings
// ---------------------------------------------------------------------------
pub struct KnownFinding {
    pub property: String,
    pub sig: String,
    pub text: String,
}

pub fn load_known(property: &str) -> Vec<KnownFinding> {
    let path = format!("{}/known_findings.txt", verif_root());
    let mut v = Vec::new();
    if let Ok(s) = std::fs::read_to_string(&path) {
        for line in s.lines() {
            let line = line.trim();
            // KNOWN-FINDING: property=<id> key=<sig> <text>
            if let Some(rest) = line.strip_prefix("KNOWN-FINDING:") {
                let rest = rest.trim();
                let mut prop = "";
                let mut sig = String::new();
                let mut text = rest.to_string();
                if let Some(r) = rest.strip_prefix("property=") {
                    let (p, r2) = r.split_once(' ').unwrap_or((r, ""));
                    prop = p;
                    if let Some(r3) = r2.trim().strip_prefix("key=\"") {
                        if let Some(end) = r3.find('"') {
                            sig = r3[..end].to_string();
                            text = r3[end + 1..].trim().to_string();
                        }
                    }
                }
                if prop == property && !sig.is_empty() {
                    v.push(KnownFinding { property: prop.to_string(), sig, text });
                }
            }
        }
    }
    v
}

pub fn verif_root() -> String {
    std::env::var("VERIF_ROOT").unwrap_or_else(|_| "/verif".to_string())
}

// ---------------------------------------------------------------------------
// Statistics
// ---------------------------------------------------------------------------
#[derive(Default)]
pub struct Stats {
    pub evaluations: u64,
    pub nontrivial: HashSet<u64>,
    pub classes: BTreeMap<String, u64>,
    pub samples: Vec<String>,
    pub known_hits: BTreeMap<String, u64>,
    pub excluded_known: u64,
    pub discarded: u64,
    pub exhaustive_part: bool,
    pub extra: BTreeMap<String, u64>,
    pub violations: Vec<Violation>,
}

#[derive(Clone)]
pub struct Violation {
    pub sig: String,
    pub detail: String,
    pub choices: Vec<u32>,
    pub direct: bool,
    pub render: String,
}

impl Stats {
    pub fn record(&mut self, out: &CaseOut) {
        self.evaluations += 1;
        if out.discarded {
            self.discarded += 1;
        }
        if out.nontrivial && !out.discarded {
            self.nontrivial.insert(out.hash);
        }
        for c in &out.classes {
            *self.classes.entry(c.to_string()).or_insert(0) += 1;
        }
        self.excluded_known += out.excluded_known as u64;
        if let Some(r) = &out.render {
            if self.samples.len() < 6 && out.nontrivial && !out.discarded {
                self.samples.push(r.clone());
            }
        }
    }
    pub fn bump(&mut self, key: &str, n: u64) {
        *self.extra.entry(key.to_string()).or_insert(0) += n;
    }
}

// ---------------------------------------------------------------------------
// Engine A: proptest-driven random search with shrinking
// ---------------------------------------------------------------------------
pub type CaseFn<'a> = dyn FnMut(&mut Choices, &CaseCtx) -> CaseOut + 'a;

pub struct EngineCfg {
    pub seed: u64,
    pub cases: u32,
    pub max_len: usize,
    pub thorough: bool,
    pub release: bool,
    pub known: Vec<String>,
    pub max_shrink_iters: u32,
}

thread_local! {
    static CAREFUL: Option<String> = std::env::var("VERIF_CAREFUL").ok();
}

/// careful mode (after a worker died): the case about to run is written to a file first,
/// so that the parent can attribute a process death to it
fn careful_note(choices: &[u32], direct: bool) {
    CAREFUL.with(|c| {
        if let Some(path) = c {
            let s = format!("mode={}\nchoices={}\n", if direct { "direct" } else { "mapped" }, choices.iter().map(|x| x.to_string()).collect::<Vec<_>>().join(","));
            let _ = std::fs::write(path, s);
        }
    });
}

fn run_guarded(f: &mut CaseFn, ch: &mut Choices, ctx: &CaseCtx) -> CaseOut {
    careful_note(ch.data_slice(), ch.direct);
    match std::panic::catch_unwind(std::panic::AssertUnwindSafe(|| f(ch, ctx))) {
        Ok(o) => o,
        Err(_) => {
            let msg = normalise(&take_panic().unwrap_or_else(|| "panic".into()));
            let mut o = CaseOut::default();
            o.fail(format!("panic: {}", msg), "uncaught panic while running the case");
            o
        }
    }
}

/// Random search.  Stops at the first failure whose signature is not a known
/// finding, shrinks it (keeping the signature), and records it in `stats`.
pub fn engine_random(cfg: &EngineCfg, stats: &mut Stats, f: &mut CaseFn) {
    use proptest::collection::vec;
    use proptest::prelude::*;
    use proptest::test_runner::{Config, RngSeed, TestCaseError, TestError, TestRunner};
    if cfg.cases == 0 {
        return;
    }
    let mut config = Config::default();
    config.cases = cfg.cases;
    config.failure_persistence = None;
    config.rng_seed = RngSeed::Fixed(cfg.seed);
    config.max_shrink_iters = cfg.max_shrink_iters;
    config.verbose = 0;
    let mut runner = TestRunner::new(config);
    let strat = vec(any::<u32>(), 0..=cfg.max_len);
    let first_fail: RefCell<Option<String>> = RefCell::new(None);
    let want = std::cell::Cell::new(0u32);
    let stats_cell = RefCell::new(stats);
    let fcell = RefCell::new(f);
    let res = runner.run(&strat, |v| {
        let shrinking = first_fail.borrow().is_some();
        let n = want.get();
        let ctx = CaseCtx {
            want_render: !shrinking && (n < 400),
            tier_thorough: cfg.thorough,
            release: cfg.release,
        };
        want.set(n.saturating_add(1));
        let mut ch = Choices::new(&v, false);
        let mut fm = fcell.borrow_mut();
        let out = run_guarded(&mut **fm, &mut ch, &ctx);
        if !shrinking {
            let mut st = stats_cell.borrow_mut();
            st.record(&out);
            if let Some(fl) = &out.fail {
                if cfg.known.iter().any(|k| k == &fl.sig) {
                    *st.known_hits.entry(fl.sig.clone()).or_insert(0) += 1;
                    return Ok(());
                }
                *first_fail.borrow_mut() = Some(fl.sig.clone());
                return Err(TestCaseError::fail(fl.sig.clone()));
            }
            Ok(())
        } else {
            match &out.fail {
                Some(fl) if Some(&fl.sig) == first_fail.borrow().as_ref() => {
                    Err(TestCaseError::fail(fl.sig.clone()))
                }
                _ => Ok(()),
            }
        }
    });
    let stats = stats_cell.into_inner();
    let f = fcell.into_inner();
    match res {
        Ok(()) => {}
        Err(TestError::Fail(_, minimal)) => {
            let ctx = CaseCtx { want_render: true, tier_thorough: cfg.thorough, release: cfg.release };
            let mut ch = Choices::new(&minimal, false);
            let out = run_guarded(f, &mut ch, &ctx);
            let used = ch.used().min(minimal.len());
            let (sig, detail) = match out.fail {
                Some(fl) => (fl.sig, fl.detail),
                None => (
                    first_fail.borrow().clone().unwrap_or_default(),
                    "failure did not reproduce on re-run of the minimal case (flaky?)".to_string(),
                ),
            };
            stats.violations.push(Violation {
                sig,
                detail,
                choices: minimal[..used].to_vec(),
                direct: false,
                render: out.render.unwrap_or_default(),
            });
        }
        Err(TestError::Abort(r)) => {
            stats.bump("proptest_abort", 1);
            eprintln!("proptest aborted: {}", r);
        }
    }
}

/// Engine B helper: run one explicitly constructed (direct-mode) case.
/// Returns false when an unlisted violation was recorded (caller may stop).
pub fn run_direct(
    choices: &[u32],
    cfg: &EngineCfg,
    stats: &mut Stats,
    want_render: bool,
    f: &mut CaseFn,
) -> bool {
    let ctx = CaseCtx { want_render, tier_thorough: cfg.thorough, release: cfg.release };
    let mut ch = Choices::new(choices, true);
    let out = run_guarded(f, &mut ch, &ctx);
    stats.record(&out);
    if let Some(fl) = &out.fail {
        if cfg.known.iter().any(|k| k == &fl.sig) {
            *stats.known_hits.entry(fl.sig.clone()).or_insert(0) += 1;
            return true;
        }
        let render = if out.render.is_some() {
            out.render.clone().unwrap()
        } else {
            let ctx = CaseCtx { want_render: true, tier_thorough: cfg.thorough, release: cfg.release };
            let mut ch = Choices::new(choices, true);
            run_guarded(f, &mut ch, &ctx).render.unwrap_or_default()
        };
        stats.violations.push(Violation {
            sig: fl.sig.clone(),
            detail: fl.detail.clone(),
            choices: choices.to_vec(),
            direct: true,
            render,
        });
        return false;
    }
    true
}

// ---------------------------------------------------------------------------
// Replay files
// ---------------------------------------------------------------------------
pub static REPLAY_TIER_THOROUGH: std::sync::atomic::AtomicBool = std::sync::atomic::AtomicBool::new(false);

pub fn write_replay(property: &str, v: &Violation, profile: &str) -> String {
    let dir = format!("{}/replays/{}", verif_root(), property);
    let _ = std::fs::create_dir_all(&dir);
    let h = hash_of(&(v.sig.clone(), v.choices.clone()));
    let path = format!("{}/fail-{:016x}.replay", dir, h);
    let mut s = String::new();
    s.push_str(&format!("property={}\n", property));
    s.push_str(&format!("mode={}\n", if v.direct { "direct" } else { "mapped" }));
    s.push_str(&format!("profile={}\n", profile));
    // (the generators scale with the tier, so the choices only mean the same case under the same tier)
    s.push_str(&format!("tier={}\n", if REPLAY_TIER_THOROUGH.load(std::sync::atomic::Ordering::Relaxed) { "thorough" } else { "quick" }));
    s.push_str(&format!("signature={}\n", v.sig));
    s.push_str(&format!(
        "choices={}\n",
        v.choices.iter().map(|x| x.to_string()).collect::<Vec<_>>().join(",")
    ));
    for l in v.detail.lines() {
        s.push_str(&format!("# detail: {}\n", l));
    }
    for l in v.render.lines() {
        s.push_str(&format!("# case: {}\n", l));
    }
    let _ = std::fs::write(&path, s);
    path
}

pub struct Replay {
    pub property: String,
    pub direct: bool,
    pub choices: Vec<u32>,
    pub signature: String,
    pub expect: String,
    /// name of a plain witness (regression tier), when the file records one
    pub witness: String,
    pub thorough: bool,
}

pub fn read_replay(path: &str) -> Option<Replay> {
    let s = std::fs::read_to_string(path).ok()?;
    let mut r = Replay {
        property: String::new(),
        direct: false,
        choices: Vec::new(),
        signature: String::new(),
        expect: String::new(),
        witness: String::new(),
        thorough: false,
    };
    for line in s.lines() {
        if let Some(v) = line.strip_prefix("property=") {
            r.property = v.trim().to_string();
        } else if let Some(v) = line.strip_prefix("mode=") {
            r.direct = v.trim() == "direct";
        } else if let Some(v) = line.strip_prefix("signature=") {
            r.signature = v.to_string();
        } else if let Some(v) = line.strip_prefix("tier=") {
            r.thorough = v.trim() == "thorough";
        } else if let Some(v) = line.strip_prefix("witness=") {
            r.witness = v.trim().to_string();
        } else if let Some(v) = line.strip_prefix("expect=") {
            r.expect = v.trim().to_string();
        } else if let Some(v) = line.strip_prefix("choices=") {
            r.choices = v
                .split(',')
                .filter(|x| !x.trim().is_empty())
                .filter_map(|x| x.trim().parse::<u32>().ok())
                .collect();
        }
    }
    Some(r)
}
