// Helpers around the interpreter: safe boot, outcome classification, rendering.
use xeh::prelude::*;
use xeh::state::verif_hooks::verif_render_cell;

pub fn worker_limits() {
    // address-space cap: an allocation failure aborts the worker and is
    // reported as "inconclusive", never as a violation
    let gib: u64 = std::env::var("VERIF_AS_GIB").ok().and_then(|s| s.parse().ok()).unwrap_or(3);
    unsafe {
        let lim = libc::rlimit { rlim_cur: gib << 30, rlim_max: gib << 30 };
        libc::setrlimit(libc::RLIMIT_AS, &lim);
        let core = libc::rlimit { rlim_cur: 0, rlim_max: 0 };
        libc::setrlimit(libc::RLIMIT_CORE, &core);
    }
}

fn stub(_xs: &mut Xstate) -> Xresult {
    Err(Xerr::ErrorMsg(Xstr::from("stubbed by the verification harness")))
}

pub const STUBBED: &[&str] = &["exec-piped", "write-all", "read-all", "random", "random-bits"];
pub const STUBBED_IMMEDIATE: &[&str] = &["include", "require"];

/// Boot an interpreter that cannot touch the outside world.
pub fn boot_safe() -> Xstate {
    let mut xs = Xstate::boot().expect("boot");
    xs.intercept_stdout(true);
    for w in STUBBED {
        xs.defword(w, stub).unwrap();
    }
    for w in STUBBED_IMMEDIATE {
        xs.def_immediate(w, stub).unwrap();
    }
    xs
}

thread_local! {
    static PRISTINE: Xstate = boot_safe();
}

/// A fresh safe interpreter (clone of a pristine one; every 64th is re-booted).
pub fn fresh() -> Xstate {
    thread_local! { static N: std::cell::Cell<u64> = std::cell::Cell::new(0); }
    let n = N.with(|c| {
        let v = c.get();
        c.set(v + 1);
        v
    });
    if n % 64 == 63 {
        boot_safe()
    } else {
        PRISTINE.with(|p| p.clone())
    }
}

pub fn set_limits(xs: &mut Xstate, insn: usize, stack: usize, heap: usize) {
    xs.set_insn_limit(Some(insn)).unwrap();
    xs.set_stack_limit(Some(stack)).unwrap();
    xs.set_heap_limit(Some(heap)).unwrap();
}

pub fn render(c: &Cell) -> String {
    let mut s = String::new();
    verif_render_cell(c, &mut s);
    s
}

/// visible data stack, bottom first
pub fn stack(xs: &Xstate) -> Vec<Cell> {
    let n = xs.data_depth();
    (0..n).rev().filter_map(|i| xs.get_data(i).cloned()).collect()
}

pub fn render_stack(xs: &Xstate) -> String {
    stack(xs).iter().map(render).collect::<Vec<_>>().join(" | ")
}

pub fn section(xs: &Xstate, name: &str) -> String {
    xs.verif_sections().into_iter().find(|(k, _)| *k == name).map(|(_, v)| v).unwrap_or_default()
}

pub fn section_num(xs: &Xstate, name: &str) -> usize {
    section(xs, name).parse().unwrap_or(0)
}

/// Coarse error kinds used by the oracles.
#[derive(Clone, Copy, Debug, PartialEq, Eq, Hash)]
pub enum Kind {
    Ok,
    Underflow,
    Type,
    LoopStack,
    ReturnStack,
    DivZero,
    Overflow,
    Assert,
    InsnLimit,
    StackLimit,
    HeapLimit,
    UnknownWord,
    Parse,
    ControlFlow,
    OutOfBounds,
    ConstContext,
    Read,
    Seek,
    Match,
    Bytestr,
    User,
    Exit,
    Internal,
    Other,
}

pub fn kind_of(e: &Xerr) -> Kind {
    match e {
        Xerr::UnknownWord(_) => Kind::UnknownWord,
        Xerr::ParseError { .. } | Xerr::StrDecodeError { .. } => Kind::Parse,
        Xerr::ExpectingName | Xerr::ExpectingLiteral => Kind::Parse,
        Xerr::ControlFlowError { .. } => Kind::ControlFlow,
        Xerr::IntegerOverflow => Kind::Overflow,
        Xerr::DivisionByZero => Kind::DivZero,
        Xerr::StackUnderflow => Kind::Underflow,
        Xerr::ReturnStackUnderflow => Kind::ReturnStack,
        Xerr::LoopStackUnderflow => Kind::LoopStack,
        Xerr::TypeError | Xerr::TypeErrorMsg { .. } | Xerr::TypeNotSupported { .. } => Kind::Type,
        Xerr::IOError { .. } => Kind::Other,
        Xerr::OutOfBounds { .. } => Kind::OutOfBounds,
        Xerr::AssertFailed | Xerr::AssertEqFailed { .. } => Kind::Assert,
        Xerr::InternalError => Kind::Internal,
        Xerr::ReadError { .. } => Kind::Read,
        Xerr::SeekError { .. } => Kind::Seek,
        Xerr::MatchError { .. } => Kind::Match,
        Xerr::ToBytestrError(_) | Xerr::BitstrSliceError(_) => Kind::Bytestr,
        Xerr::ErrorMsg(m) => {
            if m.starts_with("insn limit reached") {
                Kind::InsnLimit
            } else if m.starts_with("stack limit reached") {
                Kind::StackLimit
            } else if m.starts_with("heap limit reached") {
                Kind::HeapLimit
            } else if m.starts_with("the meta-eval context") {
                Kind::ConstContext
            } else if m.starts_with("unbalanced context") {
                Kind::ControlFlow
            } else {
                Kind::Other
            }
        }
        Xerr::UserError(_) => Kind::User,
        Xerr::Exit(_) => Kind::Exit,
    }
}

pub fn kind_res(r: &Xresult) -> Kind {
    match r {
        Ok(()) => Kind::Ok,
        Err(e) => kind_of(e),
    }
}

/// exact rendering of a result (for differential comparisons)
pub fn render_res(r: &Xresult) -> String {
    match r {
        Ok(()) => "Ok".to_string(),
        Err(e) => render_err(e),
    }
}

pub fn render_err(e: &Xerr) -> String {
    match e {
        Xerr::TypeErrorMsg { val, msg } => format!("TypeErrorMsg({}, {})", msg, render(val)),
        Xerr::TypeNotSupported { val } => format!("TypeNotSupported({})", render(val)),
        Xerr::AssertEqFailed { a, b } => format!("AssertEqFailed({}, {})", render(a), render(b)),
        Xerr::UserError(v) => format!("UserError({})", render(v)),
        Xerr::SeekError { src, offset } => {
            format!("SeekError({}, {})", render(&Cell::Bitstr(src.clone())), offset)
        }
        Xerr::MatchError { src, expect, fail_pos } => format!(
            "MatchError({}, {}, {})",
            render(&Cell::Bitstr(src.clone())),
            render(&Cell::Bitstr(expect.clone())),
            fail_pos
        ),
        Xerr::ToBytestrError(s) => format!("ToBytestrError({})", render(&Cell::Bitstr(s.clone()))),
        Xerr::BitstrSliceError(s) => format!("BitstrSliceError({})", render(&Cell::Bitstr(s.clone()))),
        Xerr::ParseError { msg, substr } => format!("ParseError({}, {:?})", msg, substr.as_str()),
        other => format!("{:?}", other),
    }
}

/// names and rendered values of all variables and constants
pub fn vars(xs: &Xstate) -> Vec<(String, String)> {
    xs.var_list().into_iter().map(|(n, v)| (n.to_string(), render(v))).collect()
}

pub fn take_stdout(xs: &mut Xstate) -> String {
    xs.read_stdout().unwrap_or_default()
}

/// source text for an integer literal
pub fn int_lit(i: i128) -> String {
    format!("{}", i)
}

/// source text of a string literal, escaped the documented way
pub fn str_lit(s: &str) -> String {
    let mut o = String::from("\"");
    for c in s.chars() {
        match c {
            '\\' => o.push_str("\\\\"),
            '"' => o.push_str("\\\""),
            '\n' => o.push_str("\\n"),
            '\r' => o.push_str("\\r"),
            '\t' => o.push_str("\\t"),
            c => o.push(c),
        }
    }
    o.push('"');
    o
}

/// bit-string literal from bits
pub fn bits_lit(bits: &[bool]) -> String {
    let mut o = String::from("|");
    for b in bits {
        o.push(if *b { 'x' } else { '.' });
    }
    o.push('|');
    o
}

pub fn bits_of(bs: &Xbitstr) -> Vec<bool> {
    bs.bits().map(|b| b != 0).collect()
}

pub fn bitstr_from_bits(bits: &[bool]) -> Xbitstr {
    let mut b = xeh::bitstr::BitvecBuilder::default();
    for x in bits {
        b.append_bit(*x as u8);
    }
    b.finish()
}
