// Extended program generator for the differential / history properties
// (C02, C03, C14, C15): the C01 control-flow backbone plus snippets that reach
// the rest of the instruction repertoire (builders, foreach, let, late words,
// cursor reads, tags, collection words), optional meta blocks and optional
// failing tails.  No reference model: these properties compare executions of
// the real code with each other.
use crate::common::*;
use crate::prog;

pub struct ExtOpts {
    pub meta: bool,
    pub failing: bool,
    pub max_items: usize,
    pub backbone_nodes: usize,
}

pub struct ExtProg {
    pub source: String,
    pub features: Vec<&'static str>,
    pub has_meta: bool,
    pub expect_fail: bool,
}

fn snippet(ch: &mut Choices, k: usize, uid: usize, top: bool, feats: &mut Vec<&'static str>) -> String {
    let a = ch.range(0, 5);
    let b = ch.range(1, 4);
    let mut f = |s: &'static str| {
        if !feats.contains(&s) {
            feats.push(s)
        }
    };
    match k {
        0 => {
            f("vec-builder");
            format!("[ {} {} [ {} ] ] length drop", a, b, a + b)
        }
        1 => {
            f("vec-builder-loop");
            format!("[ {} 0 do I loop ] length", b)
        }
        2 => {
            f("map-builder");
            format!("{{ {} \"a\" {} \"b\" }} \"a\" get", a, b)
        }
        3 => {
            f("foreach-vec");
            format!("[ {} {} {} ] foreach I 1 + drop loop", a, b, a * b)
        }
        4 => {
            f("foreach-map");
            format!("{{ {} \"k\" {} \"j\" }} foreach I drop drop loop", a, b)
        }
        5 => {
            f("swap-rot-over");
            format!("{} {} {} rot over swap drop drop drop", a, b, a + 1)
        }
        6 => {
            f("locals");
            format!(": wl{u} local a local b a b b a + + + ; {} {} wl{u}", a, b, u = uid)
        }
        7 => {
            f("late-word");
            format!("late LW{u} : ULW{u} LW{u} {} + ; : LW{u} {} ; ULW{u} ULW{u} +", a, b, u = uid)
        }
        8 => {
            f("cursor-reads");
            format!(
                "|ff 00 12 34 56 78 9a| open-bitstr u8 {} bits drop 2 uint big i16be little remain drop {} seek u8 close-bitstr + + +",
                1 + b,
                (a % 4) * 8
            )
        }
        9 => {
            f("tags");
            format!("{} ^{{ {} \"a\" ^}} dup tags drop \"a\" get-tag", a, b)
        }
        10 => {
            if top {
                f("let-global");
                format!("[ {} {} ] let [ la{u} lb{u} ] la{u} lb{u} +", a, b, u = uid)
            } else {
                f("let-local");
                format!("[ {} {} ] let [ p{u} q{u} ] p{u} q{u} +", a, b, u = uid)
            }
        }
        11 => {
            f("let-in-word");
            format!(": wlet{u} [ {} [ {} ] ] let [ p [ q ] ] p q + ; wlet{u}", a, b, u = uid)
        }
        12 => {
            f("case");
            format!("{} case 1 of 10 endof 2 of 20 endof drop 0 endcase", a)
        }
        13 => {
            if top {
                f("until-counter");
                format!("0 var cnt{u} begin cnt{u} 1 + ! cnt{u} cnt{u} {} >= until", b, u = uid)
            } else {
                format!("{} begin 1 - dup 0 <= until drop", b)
            }
        }
        14 => {
            f("break-in-do");
            format!("{} 0 do I {} == if break then I drop loop", b + 2, b)
        }
        15 => {
            f("local-in-loop");
            format!(": wll{u} {} 0 do I local x x drop loop ; wll{u}", b, u = uid)
        }
        16 => {
            f("collect-unbox");
            format!("{} {} 2 collect unbox +", a, b)
        }
        17 => {
            f("string-words");
            format!("[ \"x\" {} [ {} ] ] concat length", a, b)
        }
        18 => {
            f("sort-reverse-slice");
            format!("[ 3 {} 2 {} ] sort reverse 0 2 slice length", a, b)
        }
        19 => {
            f("emit-output");
            format!("{} u8! emit", a)
        }
        20 => {
            f("recursion");
            format!(": rec{u} dup 0 > if 1 - rec{u} else drop then ; {} rec{u}", b, u = uid)
        }
        21 => {
            f("while-loop");
            format!("0 begin dup {} < while 1 + repeat drop", b)
        }
        22 => {
            f("nested-open-bitstr");
            format!("|a5 5a| open-bitstr 4 bits open-bitstr 2 uint drop close-bitstr u8 drop close-bitstr")
        }
        23 => {
            f("map-insert-remove");
            format!("{{ }} {} \"k\" insert {} \"j\" insert \"k\" remove \"j\" get", a, b)
        }
        24 => {
            f("push-nth");
            format!("{} [ {} ] push -1 nth", a, b)
        }
        27 => {
            // a store of a value that is equal? to the old one but carries other tags
            f("store-equal-value-other-tags");
            if top {
                format!("{} ^{{ 1 \"k\" ^}} var tv{u} {} ^{{ 2 \"k\" ^}} ! tv{u} tv{u} \"k\" get-tag tv{u} ^hex ! tv{u} tv{u} print", 250 + a, 250 + a, u = uid)
            } else {
                format!("{} ^{{ 1 \"k\" ^}} dup ^hex swap drop print", 250 + a)
            }
        }
        28 => {
            f("insert-tag-store");
            if top {
                format!("[ {} {} ] var tw{u} tw{u} \"kg\" \"unit\" insert-tag ! tw{u} tw{u} \"unit\" get-tag tw{u} length", a, b, u = uid)
            } else {
                format!("[ {} ] \"kg\" \"unit\" insert-tag \"unit\" get-tag drop", a)
            }
        }
        29 => {
            // equal bit-strings with different windows stored into the cursor variables
            f("cursor-equal-windows");
            "|aa aa 05 00 05| open-bitstr 8 bits 8 bits open-bitstr open-bitstr close-bitstr close-bitstr u8 drop u8 drop u8 drop close-bitstr".to_string()
        }
        30 => {
            f("over-flood");
            format!("{} {} over over over over + + + + +", a, b)
        }
        25 => {
            f("gap-local-branch");
            format!(": wg{u} {} if 10 local a a drop then {} local b b ; wg{u}", if a % 2 == 0 { "false" } else { "true" }, b, u = uid)
        }
        26 => {
            f("gap-local-zero-trip");
            format!(": wz{u} {} 0 do I local a a drop loop {} local b b a ; wz{u}", a % 3, b, u = uid)
        }
        _ => {
            f("print");
            format!("{} print", a)
        }
    }
}

const N_SNIPPETS: usize = 32;

const FAILING: &[&str] = &[
    "1 0 /",
    "drop drop drop drop drop drop drop drop drop drop drop drop drop drop drop drop drop drop drop drop drop drop drop drop",
    "\"a\" 1 +",
    "5 if 1 then",
    "1 assert",
    "false assert",
    "7 error",
    "[ 1 ] 5 nth",
    "I",
    "1 2 assert-eq",
    ": bad_w 1 nil + ; bad_w",
    "3 0 do I 1 == if \"s\" 1 - then loop",
    "[ 1 2 ] foreach I 0 / loop",
    "|ff| open-bitstr 16 bits",
];

const META: &[&str] = &[
    "#( 1 2 + #)",
    "#( : m_t 2 3 * ; m_t #)",
    "[ #( 1 2 3 #) ]",
    "#( 5 const MC5 #) MC5",
    "#( #( 1 2 #) + #)",
    ": mw #( 3 3 * #) ; mw",
];

const META_FAIL: &[&str] = &["#( 1 0 / #)", "#( drop #)", "#( nosuchword #)"];
const BUILD_FAIL: &[&str] = &["nosuchword", "1 if", "then", "2d", "\"abc", "[ 1", "loop", ": f", "0x"];

pub fn generate(ch: &mut Choices, opts: &ExtOpts) -> ExtProg {
    let mut feats: Vec<&'static str> = Vec::new();
    let mut items: Vec<String> = Vec::new();
    let mut has_meta = false;
    // backbone from the control-flow generator (single source)
    if ch.chance(2, 3) {
        let g = prog::GenOpts {
            max_nodes: opts.backbone_nodes,
            max_depth: 4,
            allow_errors: false,
            allow_infinite: false,
            allow_print: true,
            allow_gap_locals: true,
            multi_chunk: false,
        };
        let p = prog::generate(ch, g);
        for f in &p.features {
            if !feats.contains(f) {
                feats.push(f);
            }
        }
        items.push(p.sources.join(" "));
    }
    let n = 1 + ch.below(opts.max_items);
    for i in 0..n {
        let k = ch.below(N_SNIPPETS);
        let s = snippet(ch, k, i, true, &mut feats);
        // sometimes wrap a snippet in a definition / a loop so that it runs at call depth and inside loop frames
        match ch.weighted(&[6, 2, 2]) {
            0 => items.push(s),
            1 => {
                let inner = snippet(ch, k, i + 100, false, &mut feats);
                if inner.contains(" var ") || inner.starts_with(": ") || inner.contains(" : ") || inner.starts_with("late ") {
                    items.push(inner.replace(&format!("{}", i + 100), &format!("{}", i + 200)));
                } else {
                    items.push(format!(": wrap{} {} ; wrap{}", i, inner, i));
                    feats.push("wrapped-in-word");
                }
            }
            _ => {
                let inner = snippet(ch, k, i + 300, false, &mut feats);
                if inner.contains(" var ") || inner.contains(": ") || inner.starts_with("late ") || inner.contains("let ") {
                    items.push(inner);
                } else {
                    items.push(format!("2 0 do {} loop", inner));
                    feats.push("wrapped-in-loop");
                }
            }
        }
        if opts.meta && ch.chance(1, 4) {
            items.push(META[ch.below(META.len())].to_string());
            has_meta = true;
            if !feats.contains(&"meta-block") {
                feats.push("meta-block");
            }
        }
    }
    let mut expect_fail = false;
    if opts.failing {
        match ch.weighted(&[6, 3, 1, if opts.meta { 1 } else { 0 }]) {
            0 => {}
            1 => {
                let pos = ch.below(items.len() + 1);
                items.insert(pos, FAILING[ch.below(FAILING.len())].to_string());
                feats.push("runtime-failure");
                expect_fail = true;
            }
            2 => {
                let pos = ch.below(items.len() + 1);
                items.insert(pos, BUILD_FAIL[ch.below(BUILD_FAIL.len())].to_string());
                feats.push("build-failure");
                expect_fail = true;
            }
            _ => {
                let pos = ch.below(items.len() + 1);
                items.insert(pos, META_FAIL[ch.below(META_FAIL.len())].to_string());
                feats.push("meta-failure");
                expect_fail = true;
                has_meta = true;
            }
        }
    }
    let sep = *[" ", "\n", "  \n "].get(ch.below(3)).unwrap();
    ExtProg { source: items.join(sep), features: feats, has_meta, expect_fail }
}

/// a straight-line program over the whole native dictionary: each item is a word from the typed table of C13 with
/// literal arguments that (mostly) make it succeed; a binary input is opened first so that the cursor words work.
/// The walk is cut at the first failing step like for every other program.
pub fn dictionary(ch: &mut Choices, max_items: usize) -> ExtProg {
    use crate::props::c13;
    let mut items: Vec<String> = vec![format!("{} open-bitstr u8 drop", crate::xs::bits_lit(&c13::INPUT.iter().flat_map(|b| (0..8).rev().map(move |k| (b >> k) & 1 == 1)).collect::<Vec<_>>()))];
    let n = 1 + ch.below(max_items);
    for _ in 0..n {
        let (word, alts) = c13::TABLE[ch.below(c13::TABLE.len())];
        if ["assert", "assert-eq", "error", "exit"].contains(&word) {
            continue;
        }
        let alts: Vec<&str> = alts.split('|').collect();
        let alt = alts[ch.below(alts.len())];
        let mut s = String::new();
        for code in alt.split_whitespace() {
            s.push_str(&crate::val::src(&c13::gen_arg(ch, code)));
            s.push(' ');
        }
        s.push_str(word);
        if ch.chance(1, 3) {
            s.push_str(" drop");
        }
        items.push(s);
    }
    ExtProg { source: items.join("\n"), features: vec!["dictionary-words"], has_meta: false, expect_fail: false }
}

