#!/bin/bash
# usage: fuzz/campaign.sh <ID>   coverage-guided campaign for one property (thorough tier)
# 16 libFuzzer processes, a fixed number of runs each (60000) under a wall-clock cap (420 s, whichever comes first),
# seeds derived from VERIF_SEED; fresh corpus directories.
# A crash artifact is replayed strictly, reduced and turned into a replay file by `xv frombytes`.
set -u
ID="$1"
ROOT="$(cd "$(dirname "$0")/.." && pwd)"
BIN="$ROOT/fuzz/target/x86_64-unknown-linux-gnu/release/prop"
XV="$ROOT/.target/debug/xv"
[ -x "$BIN" ] || { echo "libFuzzer target not built: campaign skipped"; exit 0; }
RUNS="${VERIF_FUZZ_RUNS:-60000}"
MAXT="${VERIF_FUZZ_MAX_S:-420}"
PROCS="${VERIF_FUZZ_PROCS:-16}"
SEED="${VERIF_SEED:-20260922}"
WORK="$ROOT/fuzz/corpus-run/$ID"
ART="$ROOT/fuzz/artifacts/$ID"
rm -rf "$WORK" "$ART"; mkdir -p "$WORK" "$ART"
MAXLEN=$(( $("$XV" maxlen "$ID") * 4 ))
t0=$(date +%s)
for k in $(seq 1 "$PROCS"); do
  mkdir -p "$WORK/c$k"
  XV_PROP="$ID" VERIF_ROOT="$ROOT" ASAN_OPTIONS=detect_leaks=0:abort_on_error=1 "$BIN" -runs="$RUNS" -max_total_time="$MAXT" -seed=$(( SEED * 64 + k )) -len_control=0 -max_len="$MAXLEN" \
     -rss_limit_mb=3000 -timeout=60 -artifact_prefix="$ART/p$k-" -print_final_stats=1 "$WORK/c$k" "$ROOT/fuzz/seeds" >"$WORK/log$k.txt" 2>&1 &
done
wait
t1=$(date +%s)
execs=$(grep -h "stat::number_of_executed_units" "$WORK"/log*.txt | awk '{s+=$2} END{print s+0}')
units=$(ls "$WORK"/c*/ 2>/dev/null | wc -l)
cov=$(grep -h "cov: " "$WORK"/log*.txt | sed 's/.*cov: \([0-9]*\).*/\1/' | sort -n | tail -1)
echo "$ID libFuzzer: executed=$execs corpus_units=$units max_cov=${cov:-0} procs=$PROCS wall=$((t1-t0))s"
python3 - "$ROOT/evidence/$ID.json" "$execs" "$units" "${cov:-0}" "$PROCS" <<'PY'
import json,sys
p,execs,units,cov,procs=sys.argv[1:6]
try:
    d=json.load(open(p))
    d["coverage"]["libfuzzer"]={"executed_units":int(execs),"corpus_units":int(units),"max_edge_coverage":int(cov),"processes":int(procs),
      "note":"coverage-guided search over the same choice-sequence generator and oracle (fuzz/fuzz_targets/prop.rs)"}
    json.dump(d,open(p,"w"),indent=1)
except Exception as e:
    print("evidence not updated:",e)
PY
rc=0
for a in "$ART"/*; do
  case "$a" in *slow-unit-*) continue;; esac
  [ -f "$a" ] || continue
  case "$a" in *oom-*|*timeout-*) echo "INCONCLUSIVE property=$ID libFuzzer artifact $(basename "$a") (resource limit)"; [ $rc -eq 0 ] && rc=2; continue;; esac
  "$XV" frombytes "$ID" "$a"; r=$?
  if [ $r -eq 1 ]; then rc=1; fi
done
exit $rc
