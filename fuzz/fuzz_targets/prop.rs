// One coverage-guided target for every property: the input bytes are the choice sequence of the property's
// case function (the same generator + oracle the proptest engine drives), selected by XV_PROP.
#![no_main]
use libfuzzer_sys::fuzz_target;
use std::sync::OnceLock;
use xv_lib::common::*;
use xv_lib::{props, PropDef};

struct Cfg {
    prop: &'static PropDef,
    known: Vec<String>,
}
static CFG: OnceLock<Cfg> = OnceLock::new();

fuzz_target!(|data: &[u8]| {
    let cfg = CFG.get_or_init(|| {
        // replace libfuzzer-sys' aborting hook: the harness catches panics of the code under test itself
        install_panic_hook();
        let id = std::env::var("XV_PROP").expect("XV_PROP=<property id>");
        let prop = props::all().iter().find(|p| p.id == id).expect("unknown property");
        let known = load_known(&id).into_iter().map(|k| k.sig).collect();
        Cfg { prop, known }
    });
    if data.len() > 4 * cfg.prop.max_len {
        return;
    }
    let v = bytes_to_choices(data);
    let ctx = CaseCtx { want_render: false, tier_thorough: false, release: false };
    let mut ch = Choices::new(&v, false);
    let out = (cfg.prop.case)(&mut ch, &ctx);
    if let Some(f) = out.fail {
        if !cfg.known.iter().any(|k| k == &f.sig) {
            eprintln!("XV-VIOLATION signature: {}", f.sig);
            std::process::abort();
        }
    }
});
