#!/bin/bash
# builds the libFuzzer target (ASan, debug assertions on) into fuzz/target; offline
set -u
cd "$(dirname "$0")"
export CARGO_NET_OFFLINE=true
unset CARGO_TARGET_DIR
cargo +nightly fuzz build --fuzz-dir . prop 2>&1 | tail -5
test -x target/x86_64-unknown-linux-gnu/release/prop
