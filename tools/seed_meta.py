#!/usr/bin/env python3
# writes /verif/seeded/<seed>/meta.json from the table below + RESULTS.tsv (which checks caught it)
import json, os, collections
ROOT='/verif/seeded'
T = {
 "C01-A": ("C01","`break` takes its opcode kind (pop loop index or not) from the outermost open loop instead of the innermost","a `break` whose own loop is nested inside a loop of the other kind (begin-loop inside do-loop or the reverse)"),
 "C01-B": ("C01","local-variable lookup falls through to the locals of an enclosing definition","a definition nested in another whose inner body uses a name that is a local of the outer definition only (and a global of the same name exists)"),
 "C02-A": ("C02","foreach takes the collection off the stack 'when the loop does not hold it yet' and the binding is not logged (rebased: condition change + dropped log entry)","a foreach loop rewound to exactly the point between `do` and the first foreach step, then stepped forward"),
 "C02-B": ("C02","rnext detaches the reverse log while undoing, so undoing `over` removes two cells","stepping backwards over an `over` instruction"),
 "C03-A": ("C03","bit-string append masks stale bits only when whole bytes were truncated","a uniquely owned slice ending mid-byte in the last byte of its buffer with 1-bits behind its end, appended to while a clone shares (or no longer shares) the value"),
 "C03-B": ("C03","the reverse-step log becomes a shared Rc<RefCell<..>> handle, so clones share one log","recording enabled, then a clone, then activity on one copy and rnext / log inspection on the other"),
 "C04-A": ("C04","append skips the stale-bit mask when no whole byte was truncated","uniquely owned slice whose parent was dropped, unaligned end inside the last buffer byte with 1-bits behind it, tail with 0-bits there"),
 "C04-B": ("C04","eq_with fast path widened to 'both starts byte aligned' and compares backing bytes","equal-length operands with len%8 != 0, both byte-aligned starts, one a slice with different bits behind its end"),
 "C05-A": ("C05","big-endian to_uint via one 16-byte word drops the 17th backing byte","big-endian decode of widths 121..128 at a non-byte-aligned offset"),
 "C05-B": ("C05","sign extension uses `val > half` instead of `>=`","signed decode of exactly the most negative value of a width 1..127"),
 "C06-A": ("C06","read_float moves the cursor before rejecting an unsupported width","`float` with a width other than 32/64 while at least that many bits remain"),
 "C06-B": ("C06","seek's range check rewritten with saturating_sub loses its lower bound","current input is a slice with non-zero start; seek to a position below that start"),
 "C07-A": ("C07","Iter8 cross-boundary group uses shift 8-n instead of len-n","a last group shorter than 8 bits that crosses a byte boundary (e.g. 5-bit field at bit offset 6)"),
 "C07-B": ("C07","pack words range-check the value; for width 127 the bound 1<<127 is i128::MIN so everything is rejected","any value packed into a field of exactly 127 bits"),
 "C08-A": ("C08","magic stores an absolute mismatch offset; error formatting split_at(fail_pos).unwrap() expects a relative one","a `magic` mismatch at input offset > 0 followed by formatting the error"),
 "C08-B": ("C08","rem's zero-divisor guard no longer looks through tags","integer `rem` whose divisor is a zero carrying tags (e.g. a zero byte read with u8)"),
 "C09-A": ("C09","rem uses checked_rem and reports overflow","`i128::MIN -1 rem` (exact result 0 is representable)"),
 "C09-B": ("C09","real comparison via total_cmp","one operand -0.0 and the other +0.0"),
 "C10-A": ("C10","rejected-build roll-back uses the innermost context's marks instead of unwinding level by level","failing token inside a still-open meta block / enum body after the same source opened a structure, emitted code or added a definition"),
 "C10-B": ("C10","dictionary roll-back of a rejected source keeps constants","the rejected source completed a `const` (or enum fields) before the failing token"),
 "C11-A": ("C11","meta-block purge skips the entry swapped into the removed slot","a meta block defining >= 2 non-constant words whose newest entry is a non-constant"),
 "C11-B": ("C11","data stack hidden only on the Eval->MetaEval transition","compile()/compile+run (not eval) of a source with a meta block while the data stack is non-empty"),
 "C12-A": ("C12","map literal pops pairs off the stack, so a repeated key keeps the first pair","a map (or tag) literal containing the same key twice"),
 "C12-B": ("C12","relative_index merged bounds test rejects index -len","`nth` with index exactly -len"),
 "C13-A": ("C13","rem's zero-divisor guard matches the raw cell","integer rem with a tagged zero divisor (panics instead of division error)"),
 "C13-B": ("C13","sort returns its argument unchanged for vectors shorter than 2","`sort` on a tagged vector of length 0 or 1 (result keeps the tags)"),
 "C14-A": ("C14","stack limit measured against the context-relative depth","a meta block entered while the enclosing program already has values on the stack"),
 "C14-B": ("C14","instruction metering hoisted into run(); next() forgotten","an instruction limit combined with single-stepping through next()"),
 "C15-A": ("C15","nil padding of skipped locals only without recording (rebased onto the repaired InitLocal)","recording on + a `local` under an untaken branch / zero-trip loop followed by another `local`"),
 "C15-B": ("C15","rejected-build dictionary roll-back only when the mode differs, so eval keeps definitions of a rejected source","a source rejected at build time after it defined something, submitted via eval (not compile)"),
 "C16-A": ("C16","leading-zero-means-hex test looks at the sign instead of the first digit","explicitly signed literal whose first digit is 0 without 0x/0b (`-010`, `+0100`, `-0ff`)"),
 "C16-B": ("C16","bit-string literal appends hex digits nibble-wise with a wrong shift across a byte boundary","a hex digit starting at bit offset 5..7 of the literal (after an odd run of x/. bits)"),
 "C17-A": ("C17","column computed as a byte distance","a multi-byte character before the failing token on the same line"),
 "C17-B": ("C17","backpatch overwrites the debug-map entry with the closing word's token","a run-time error raised by a backpatched control instruction itself (if on empty stack, do with bad bounds, of without selector)"),
 "C18-A": ("C18","word-at-a-time realignment of unaligned byte strings reads the carry from the wrong byte","encoder input with start%8 != 0 and length >= 8 bytes"),
 "C18-B": ("C18","zero85 pads its input to a multiple of 4 bytes","zero85 of a byte length that is not a multiple of 4"),
 # round 2 (the sub-agent was told what A and B were and asked for other mechanisms, preferably multi-step)
 "C02-C": ("C02","a store of a value that compares equal to the old one (other tags / other bit-string window) is left out of the reverse log","recording on; a variable overwritten by an equal-but-differently-tagged value (or the cursor variables by an equal bit-string with another window); step back over the store"),
 "C02-D": ("C02","undoing a loop advance addresses the outermost loop of the context instead of the innermost","nested do/foreach loops; a backward step over an inner `loop`; resume forward from inside the nest"),
 "C03-C": ("C03","detach's sole-owner fast path extended to byte-aligned starts > 0 moves len/8 bytes and loses the trailing partial byte","a run-time built bit-string that is the only holder of its buffer, starts at a byte boundary > 0, has a length that is not a multiple of 8, and is then appended to / inverted - while or after a clone shares it"),
 "C03-D": ("C03","hand-written State::clone_from truncates dict/code/sources for an 'ancestor' snapshot instead of copying (REPL trial reset uses it)","snapshot; then first call of a late word or re-definition of a constant on the live copy; then restore with clone_from"),
 "C10-C": ("C10","rejected-build roll-back pops one lexer instead of truncating the input stack","failing token inside an included file or inside text injected by ~) while the rejected source has trailing text"),
 "C10-D": ("C10","compile_file / eval_file no longer abandon a run that failed at run time","compile ok + run fails; then compile_file(..) + run"),
 "C11-C": ("C11","is_building_fun looks at the whole flow stack instead of the enclosing context's part","`: f #( a #( b #) c #) ;` - a nested block inside a block inside a definition, outer block already holding a value"),
 "C11-D": ("C11","variable reads are refused when a block is compiled, no longer when it runs","a meta block calling a word defined outside it (or a late word) that loads a variable"),
 "C14-C": ("C14","`over` pushes with a raw push while recording and so skips the stack limit","stack limit + recording on + `over` on an exactly full stack"),
 "C14-D": ("C14","a failed instruction is refunded on the meter, including the limit failure itself","exhaust the instruction limit, get the error, then submit more programs without raising the limit"),
 "C15-C": ("C15","under recording the Resolve instruction of a late word is put back after each execution","recording on; a late word called once; the name re-defined in a later source; the caller run again"),
 "C15-D": ("C15","under recording a store of a value equal to the current one is skipped","recording on; a variable re-assigned a value that differs only in tags (`x ^hex ! x`)"),
 "C01-C": ("C01","a definition that starts where the previous definition's body ended reuses that definition's jump-over","a definition as the last item of an if/else branch or case default, directly followed (after then/endcase) by another definition, with control taking the other path"),
 "C01-D": ("C01","`var` re-declaration reuses the existing heap cell","declare a global, compile a word that uses it, declare the same name again, call the earlier word"),
 "C06-C": ("C06","close-bitstr range-checks the restored offset against the inner input that is still current","nested open/close where the stashed outer offset lies outside the inner input's bit range"),
 "C06-D": ("C06","Bitstr::substr returns a detached empty value for empty ranges while the readers use its end as the new cursor","a zero-width successful read (0 bits, 0 uint, || magic) at a non-zero offset"),
 "C08-C": ("C08","abandon_failed_run clears the return/loop/builder stacks instead of truncating to the context's bases","compile a loop, step into it with next(), eval a source that fails at run time, compile `I`, run (panic slicing the loop stack)"),
 "C08-D": ("C08","append fast path taken when the tail is a whole number of bytes but not byte-aligned (slice().unwrap())","byte-aligned whole-byte head appended with a tail of byte-multiple length at a non-byte start"),
 "C12-C": ("C12","Ord for Cell orders reals with total_cmp while equality uses ==","real keys 0.0 and -0.0 (equal? but distinct in the total order)"),
 "C12-D": ("C12","join writes the separator when the output buffer is non-empty instead of counting items","join on a vector whose leading item(s) render as empty text"),
 "C13-C": ("C13","with-tags / ^{ ^} / binary reads wrap an already tagged cell again; value() peels one level","tagging a value that already carries tags (e.g. a number read from binary input) and then using it"),
 "C13-D": ("C13","current_byteorder matches the raw cell, so a tagged zero in `big?` means big-endian","`u8 ! big?` (a tagged 0 stored into the byte-order variable) followed by a multi-byte read or pack"),
 "C17-C": ("C17","token_filename compares source text instead of identity (re-introduces the defect repaired in eba4a94)","the same source text submitted more than once on one interpreter, error in the later copy"),
 "C17-D": ("C17","the build-error path overwrites a run-time location recorded while a meta block ran","a meta block whose failure happens inside a called definition or a loop body"),
 "C04-C": ("C04","insert gets a byte-splice fast path whose index is computed before detach() rebases the value","byte-aligned slice with start >= 8, whole-byte length, byte-aligned inserted string and insertion point"),
 "C04-D": ("C04","detach's copy path becomes a whole-byte copy that masks with end%8 of the old buffer instead of len%8","a value with start%8 = s != 0 and end%8 = e with 0 < e <= s and 1-bits among its last bits, then detach / invert / append / insert"),
 "C05-C": ("C05","Iter8 rewritten: the short last group is cut from one byte only","width not a multiple of 8 at a bit offset where the last group crosses a byte boundary (12-bit field at offsets 5..7)"),
 "C05-D": ("C05","iNle! calls the ambient-byte-order packer (copy-paste from iN!)","big mode selected earlier, then a signed explicit-little pack word (i16le! / i32le! / i64le!)"),
 "C07-C": ("C07",">bitstr gathers plain bytes into a shared run that is flushed at the wrong moment for nested vectors","a nested vector containing a bit-string element followed, inside that same nested vector, by plain byte ints or strings"),
 "C07-D": ("C07","append's byte-copy fast path taken for whole-byte tails that start off a byte boundary (copies backing bytes)","head ending on a byte boundary + a raw field of whole-byte length that is a slice starting at a non-aligned offset of a larger buffer, re-packed with >bitstr or emit"),
 "C09-C": ("C09","operand dispatch matches the popped right operand itself instead of its value, so a tagged right operand is a type error","any binary arithmetic / comparison word whose right operand carries tags (e.g. a field read from binary input)"),
 "C09-D": ("C09",">int guards with is_normal() || == 0.0 and so rejects subnormal reals","`>int` on a subnormal real"),
 "C16-C": ("C16","`e`/`E` marks a literal as real before the leading-zero-hex rule is applied","an unprefixed leading-zero hex literal containing the digit e (`01e2`, `0e1`, `0fe`)"),
 "C16-D": ("C16","Iter8 rewritten with a 16-bit window that ORs the second byte only for full groups","printing a bit-string that starts at a non-zero bit offset of its buffer and whose final short group crosses a byte boundary (equality itself walks the same groups)"),
 "C18-C": ("C18","the encoders flatten a vector argument piece by piece, requiring every bit-string piece to be whole bytes",">bitstr-acceptable vectors whose bit-string pieces are not byte multiples but add up to whole bytes (`[ |1| |234| ]`)"),
 "C18-D": ("C18","base32> / base32hex> upper-case the text with the full Unicode mapping before decoding","invalid text containing a non-ASCII letter whose upper-case mapping is an alphabet letter (U+0131, U+017F, ligatures)"),
}
res = collections.defaultdict(dict)
p=os.path.join(ROOT,'RESULTS.tsv')
if os.path.exists(p):
    for l in open(p):
        f=l.rstrip('\n').split('\t')
        if len(f)>=3: res[f[0]][f[1]]=f[2]
for s,(prop,what,needs) in T.items():
    d=os.path.join(ROOT,s)
    if not os.path.isdir(d): continue
    caught=sorted(k for k,v in res[s].items() if v=='1')
    meta={
      "seed": s, "breaks_property": prop, "change": what, "needs_to_manifest": needs,
      "origin": "written by an independent sub-agent that was given only the property text and its own scratch worktree of /repo (nothing from /verif)" + ("; round 2: additionally told the one-line descriptions of seeds A and B of this property, to get other mechanisms" if s.endswith(("-C","-D")) else ""),
      "confirmed_by": "tools/seed_verify.sh: patch applies to /repo HEAD in a scratch worktree; `cargo test --workspace --offline` = 144 passed with it; demo.rs (tests/demo.rs) fails with it and passes without it",
      "checks_run": "tools/seed_matrix.sh: every quick check (VERIF_SEED=1) in an isolated copy with the patch applied" if res[s] else "tools/seed_run.sh (own property's quick check)",
      "caught_by_quick_checks": caught,
      "caught_by_own_property_check": (res[s].get(prop)=='1') if res[s] else None,
    }
    json.dump(meta,open(os.path.join(d,'meta.json'),'w'),indent=1)
print("meta written for",len(T))
