#!/usr/bin/env python3
# rewrites the block between the SENSITIVITY markers of DESIGN.md from seeded/RESULTS.tsv and mutants/RESULTS.tsv
import collections, re, os
ROOT='/verif'
def load(p):
    res=collections.OrderedDict()
    if os.path.exists(p):
        for l in open(p):
            f=l.rstrip('\n').split('\t')
            if len(f)>=3:
                res.setdefault(f[0],{})[f[1]]=f[2]
                if f[1]!='-': res[f[0]].pop('-',None)
    return res
ids=[f"C{n:02d}" for n in range(1,19)]
def table(res, title, own_of):
    out=[f"**{title}**", "", "| change | own check | also caught by | inconclusive |", "|---|---|---|---|"]
    miss=0
    for s in sorted(res):
        own=own_of(s)
        r=res[s]
        if r.get('-')=='NOAPPLY':
            out.append(f"| {s} | (patch no longer applies) | | |"); continue
        caught=[i for i in ids if r.get(i)=='1' and i!=own]
        inc=[i for i in ids if r.get(i)=='2']
        o=r.get(own,'-')
        if o!='1': miss+=1
        out.append(f"| {s} | {'caught' if o=='1' else ('MISSED' if o=='0' else o)} | {' '.join(caught)} | {' '.join(inc)} |")
    out.append("")
    out.append(f"{len(res)} changes, {len(res)-miss} caught by the quick tier of the check of the property they break.")
    return "\n".join(out)
seeds=load(f"{ROOT}/seeded/RESULTS.tsv")
muts=load(f"{ROOT}/mutants/RESULTS.tsv")
txt=table(seeds,"Seeded changes (sub-agents)",lambda s:s.split('-')[0])+"\n\n"+table(muts,"My own sensitivity mutants (mutants/*.diff)",lambda s:s.split('-')[0])
p=f"{ROOT}/DESIGN.md"
d=open(p).read()
d=re.sub(r"<!-- BEGIN SENSITIVITY -->.*<!-- END SENSITIVITY -->","<!-- BEGIN SENSITIVITY -->\n"+txt.replace('\\','\\\\')+"\n<!-- END SENSITIVITY -->",d,flags=re.S)
open(p,'w').write(d)
print("tables written:",len(seeds),"seeds,",len(muts),"mutants")
