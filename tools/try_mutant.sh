#!/bin/bash
# usage: tools/try_mutant.sh <patch.diff> <ID> [<ID>...]   quick tier of the given checks against one mutant,
# in an isolated copy (never touches /repo); prints one line per check and appends to /verif/mutants/RESULTS.tsv
set -u
P=$(realpath "$1"); shift
N=$(basename "$P" .diff)
MX=/tmp/mxm-$$ IDS="$*" OUT=/verif/mutants/RESULTS.tsv /verif/tools/seed_matrix.sh "$P" >/dev/null 2>&1
grep -P "^$N\\t" /verif/mutants/RESULTS.tsv | tail -n $# | awk -F'\t' '{print $1, $2, "rc="$3, $4}'
