#!/bin/bash
# usage: tools/try_mutant.sh <patch.diff> <ID> [<ID>...]   (quick tier; set TIER=thorough to override)
# Applies the patch to /repo, runs the checks, reverts. Prints one line per check.
set -u
PATCH="$1"; shift
cd /verif
if ! git -C /repo diff --quiet; then echo "/repo has uncommitted changes"; exit 2; fi
git -C /repo apply "$(realpath "$PATCH")" || { echo "patch does not apply"; exit 2; }
for id in "$@"; do
  out=$(VERIF_SEED=${VERIF_SEED:-1} ./check "$id" "${TIER:-quick}" 2>/dev/null)
  rc=$?
  echo "$id rc=$rc $(echo "$out" | grep -c '^VIOLATION') violation line(s): $(echo "$out" | grep -E '^(VIOLATION|INCONCLUSIVE)' | head -2 | tr '\n' ' ')"
done
git -C /repo checkout -- .
# drop the replay files written while the mutant was applied
for id in "$@"; do rm -f /verif/replays/$id/fail-*.replay; done
