#!/bin/bash
# usage: tools/seed_install.sh <ID> <X>   copies /tmp/seed/<ID>/<X> to /verif/seeded/<ID>-<X>/ (patch.diff demo.rs notes.md)
set -u
ID=$1; X=$2
D=/verif/seeded/$ID-$X
mkdir -p $D
cp /tmp/seed/$ID/$X/patch.diff /tmp/seed/$ID/$X/demo.rs $D/
cp /tmp/seed/$ID/$X/notes.md $D/notes.md 2>/dev/null
echo installed $D
