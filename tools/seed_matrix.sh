#!/bin/bash
# usage: [IDS="C01 C02"] [MX=/tmp/mx2] tools/seed_matrix.sh [seed names...]   (default: all seeds x all checks)
# Runs every quick check against every seeded change in an isolated copy (/tmp/mx: a worktree of /repo's HEAD and a
# copy of /verif whose harness points at that worktree), so /repo itself is never touched.  Appends lines
#   <seed> <check> <rc> <first VIOLATION/INCONCLUSIVE line>
# to /verif/seeded/RESULTS.tsv
set -u
MX=${MX:-/tmp/mx}
rm -rf $MX/verif; mkdir -p $MX
git -C /repo worktree remove --force $MX/repo >/dev/null 2>&1
git -C /repo worktree add --detach $MX/repo HEAD >/dev/null 2>&1 || { echo "worktree failed"; exit 2; }
rsync -a --exclude .target --exclude .run --exclude 'fuzz/target' --exclude 'fuzz/corpus-run' --exclude 'fuzz/artifacts' --exclude .git /verif/ $MX/verif/
sed -i "s#path = \"/repo\"#path = \"$MX/repo\"#" $MX/verif/harness/Cargo.toml
cd $MX/verif
./check --setup >/dev/null 2>&1
SEEDS="$@"
[ -z "$SEEDS" ] && SEEDS=$(ls /verif/seeded | grep -E '^C[0-9]+-[A-Z]$')
IDS="${IDS:-C01 C02 C03 C04 C05 C06 C07 C08 C09 C10 C11 C12 C13 C14 C15 C16 C17 C18}"
OUT=${OUT:-/verif/seeded/RESULTS.tsv}
for s in $SEEDS; do
  patch=/verif/seeded/$s/patch.diff
  case "$s" in *.diff) patch=$(realpath "$s"); s=$(basename "$s" .diff);; esac
  git -C $MX/repo apply "$patch" 2>/dev/null || { echo -e "$s\t-\tNOAPPLY\t" >> $OUT; continue; }
  for id in $IDS; do
    out=$(VERIF_SEED=${VERIF_SEED:-1} ./check $id quick 2>/dev/null); rc=$?
    echo -e "$s\t$id\t$rc\t$(echo "$out" | grep -E '^(VIOLATION|INCONCLUSIVE)' | head -1 | sed "s#$MX##")" >> $OUT
    rm -f replays/$id/fail-*.replay
  done
  git -C $MX/repo checkout -- .
  echo "done $s"
done
git -C /repo worktree remove --force $MX/repo >/dev/null 2>&1
rm -rf $MX
