#!/bin/bash
# usage: tools/seed_run.sh <seed name under /verif/seeded> <check IDs...>
# runs the given quick checks against one seeded change in an isolated copy (never touches /repo); prints the result lines
set -u
S=$1; shift
MX=/tmp/mx-$$ IDS="$*" /verif/tools/seed_matrix.sh "$S" >/dev/null 2>&1
grep -P "^$S\\t" /verif/seeded/RESULTS.tsv | tail -n $# | awk -F'\t' '{print $1, $2, "rc="$3, $4}'
