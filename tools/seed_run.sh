#!/bin/bash
# usage: tools/seed_run.sh <seed name under /verif/seeded> <check IDs...>   (TIER=quick default)
# applies the seeded change to /repo, runs the checks, reverts; prints one line per check
set -u
S=$1; shift
cd /verif
if ! git -C /repo diff --quiet; then echo "/repo has uncommitted changes"; exit 2; fi
git -C /repo apply /verif/seeded/$S/patch.diff || { echo "$S: patch does not apply"; exit 2; }
for id in "$@"; do
  t0=$(date +%s)
  out=$(VERIF_SEED=${VERIF_SEED:-1} ./check "$id" "${TIER:-quick}" 2>/dev/null)
  rc=$?
  t1=$(date +%s)
  echo "$S $id rc=$rc $((t1-t0))s $(echo "$out" | grep -E '^(VIOLATION|INCONCLUSIVE)' | head -1)"
done
git -C /repo checkout -- .
for id in "$@"; do rm -f /verif/replays/$id/fail-*.replay; done
