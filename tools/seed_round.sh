#!/bin/bash
# usage: tools/seed_round.sh <ID> <srcdir containing A,B> <X> <Y>   e.g. C02 /tmp/seed3/C02 E F
# verifies, installs as <ID>-<X>/<Y> and runs the own-property quick check (isolated)
set -u
ID=$1; SRC=$2; X=$3; Y=$4
for pair in "A $X" "B $Y"; do
  set -- $pair
  mkdir -p /tmp/seed/$ID/$2; cp $SRC/$1/* /tmp/seed/$ID/$2/
  echo "== $ID-$2: $(/verif/tools/seed_verify.sh /tmp/seed/$ID/$2 | sed 's/finished in [0-9.]*s//g; s/0 ignored; 0 measured; 0 filtered out;//g')"
  /verif/tools/seed_install.sh $ID $2 >/dev/null
done
IDS="$ID" MX=/tmp/mxr-$$ /verif/tools/seed_matrix.sh $ID-$X $ID-$Y >/dev/null 2>&1
grep -P "^$ID-[$X$Y]\t$ID\t" /verif/seeded/RESULTS.tsv | tail -2 | awk -F'\t' '{print $1,$2,"rc="$3,$4}'
