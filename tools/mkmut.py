#!/usr/bin/env python3
# usage: mkmut.py <name> <file> <old> <new>   -> writes /verif/mutants/<name>.diff (repo left pristine)
import sys,subprocess
name,f,old,new=sys.argv[1:5]
p='/repo/'+f
s=open(p).read()
assert s.count(old)>=1, "pattern not found"
open(p,'w').write(s.replace(old,new,1))
d=subprocess.run(['git','-C','/repo','diff'],capture_output=True,text=True).stdout
open('/verif/mutants/%s.diff'%name,'w').write(d)
subprocess.run(['git','-C','/repo','checkout','--','.'])
print("ok",name,len(d))
