#!/usr/bin/env python3
# usage: mkmut.py <name> <file> <old> <new>   -> writes /verif/mutants/<name>.diff
# works in a scratch worktree of /repo's HEAD (/tmp/mk), never in /repo itself
import sys,subprocess,os
name,f,old,new=sys.argv[1:5]
WT='/tmp/mk'
if not os.path.isdir(WT):
    subprocess.run(['git','-C','/repo','worktree','add','--detach',WT,'HEAD'],capture_output=True)
subprocess.run(['git','-C',WT,'checkout','--detach','-q',subprocess.run(['git','-C','/repo','rev-parse','HEAD'],capture_output=True,text=True).stdout.strip()])
p=os.path.join(WT,f)
s=open(p).read()
assert s.count(old)>=1, "pattern not found"
open(p,'w').write(s.replace(old,new,1))
d=subprocess.run(['git','-C',WT,'diff'],capture_output=True,text=True).stdout
open('/verif/mutants/%s.diff'%name,'w').write(d)
subprocess.run(['git','-C',WT,'checkout','--','.'])
print("ok",name,len(d))
