#!/usr/bin/env python3
# Regenerates /verif/MANIFEST.json from the table below.
import json, subprocess, os
ROOT = os.path.dirname(os.path.dirname(os.path.abspath(__file__)))

P = {
 "C01": ("model-based PBT: control-flow AST generator vs an independent tree-walking reference evaluator (proptest choice sequences, shrinking)",
         "Random search over the control-flow grammar compared with a structural evaluator; bounded by AST size/depth and fuel. Finds miscompiled nestings with high probability per run, proves nothing beyond the explored programs.",
         "reference evaluator in the harness is trusted; fuel bound 40*B+64 instructions per model step budget B"),
 "C02": ("stateful PBT: programs x forward/backward walks, per-step state-dump equality against the recorded history",
         "History invariant checked after every rnext()/next() through the dump hook over generated programs and walks.",
         "verif_dump renders the complete observable machine state; horizon = successful forward steps"),
 "C03": ("stateful PBT over a forest of cloned interpreters: isolation invariant + scripted determinism differential",
         "Every op on one state must leave the rendering of all other live states unchanged; scripts replayed on clones must reproduce results.",
         "external/non-deterministic words stubbed; rendering by content via the dump hook"),
 "C04": ("model-based stateful PBT: op histories on a pool of bit-strings vs a Vec<bool> model, ownership controlled; libFuzzer target in thorough",
         "Random op histories with explicit control of ownership/alignment; every pool entry compared with its model after every step in both overflow-check profiles.",
         "public Rust API only; lengths <= 96/640 bits"),
 "C05": ("PBT + exhaustive boundary grid: reference codec on Vec<bool>, std byte layouts, bit-exact float round trips, at every bit offset",
         "Exhaustive over width x order x sign x offset x boundary values, random elsewhere; through the Rust API and through the language words.",
         "reference codec written from the statement; 128-bit unsigned read is pinned to overflow"),
 "C06": ("model-based stateful PBT: parsing-word histories vs a cursor model with unbounded-integer arithmetic",
         "Histories of one parsing word per eval on generated inputs incl. hostile sizes; offset/remain/input/stack compared with the model after every op, both profiles.",
         "one word per eval; model mirrors absolute offsets"),
 "C07": ("round-trip PBT: field lists packed (>bitstr / emit partitions) then parsed back; length = sum of widths",
         "Random records with fields at every alignment; pack->parse round trip, output/output-length, partition independence.",
         "128-bit unsigned fields excluded (pinned overflow)"),
 "C08": ("systematic word x argument-class grid + token-soup PBT over API call sequences in isolated worker processes (+ libFuzzer in thorough)",
         "Every dictionary word applied to every argument-class tuple up to arity 2 (3 sampled) and random token soups across eval/compile/run/next/rnext/format calls; any unwind or process death is a violation; both profiles.",
         "limits set (insn 20000, stack 2000, heap 4096); allocation sizes <= 4096; OOM under the address-space cap is inconclusive"),
 "C09": ("differential PBT against a checked/widening arithmetic reference; exhaustive boundary grid + random operands; type-combination grid for errors",
         "Boundary grid over i128/f64 special values per word (exhaustive sub-grid) + random pairs; allowed-set oracle for overflow; error payload must be an actual operand.",
         "reference uses checked/256-bit arithmetic, never wrapping ops or float casts for >int"),
 "C10": ("metamorphic stateful PBT: history with a rejected source vs twin history without it; bookkeeping invariants via dump hook",
         "pre* BAD probe+ histories in eval and compile+run styles; every probe must behave as in the twin without BAD.",
         "buffer numbers in error locations are not compared"),
 "C11": ("metamorphic PBT: program with #( e #) vs program with e's values inlined; sealing variants; compile inert; eval == compile+run",
         "Constant expressions at every hole position compared with the inlined-literal twin; code length accounting via the hook.",
         "values without an exact source form are not generated"),
 "C12": ("model-based stateful PBT: collection-word histories vs association-list / Vec model with persistence check of old references",
         "Random histories with keys/elements of every type and hostile indices; persistence of every older reference checked after each op; both profiles.",
         "model equality is cross-checked against equal? on every key pair used"),
 "C13": ("metamorphic PBT + systematic grid: word on untagged vs tagged arguments; tag words vs association-list model",
         "Live dictionary x typed argument tuples x taggings; results must be equal? and failures coincide; fresh results carry no tags.",
         "printing words honouring #fmt and tag words themselves are exempt as the statement says"),
 "C14": ("differential PBT: limited run vs unlimited single-stepped twin predicting the exact failing step; bounds after every step; resume after raising",
         "Limits drawn around the exact need (need, need+-1, 0, 1); three drive modes; hard bound, exact boundary and recoverability clauses.",
         "programs with meta blocks: only hard bound and recoverability"),
 "C15": ("6-way differential PBT: eval / compile+run / compile+step x recording off/on, comparing result, error location, dump sections, variables, stdout",
         "Programs from the union of generators incl. failing ones; all six drives must agree (reverse log and meter excluded).",
         "build-time rejections compare only result/location/visible stack/variables/stdout"),
 "C16": ("PBT on the lexer: tiling/totality on fragment texts, digit-accumulated literal values, exact-case decimal->double, escape/bit-string round trips, print/read round trip (+ libFuzzer in thorough)",
         "Fragment-built UTF-8 texts and grammar-generated spellings; concatenated token texts must reproduce the input.",
         "real literals compared with correctly rounded std parse outside the exactly computable range"),
 "C17": ("PBT with an independent line/column scanner: span-tracked sources with one culprit token",
         "Sources assembled from segments with tracked spans; reported token range, line, column, quoted line and source name compared with the scanner.",
         "end-of-input errors only required to point into the right source"),
 "C18": ("round-trip PBT, exhaustive over lengths 0..=300 (quick) x 4 presentations x 4 codecs; invalid-text generator",
         "Every length in the bound with random content, aligned/unaligned/string/vector presentations; invalid text must decode to nil.",
         "in-alphabet but malformed text only required not to raise"),
}

def built():
    out = subprocess.run([os.path.join(ROOT, ".target/debug/xv"), "list"], capture_output=True, text=True)
    return set(out.stdout.split())

def main():
    b = built()
    checks, na = [], []
    for pid in sorted(P):
        tech, text, note = P[pid]
        if pid in b:
            checks.append({
                "property_id": pid,
                "quick_cmd": f"./check {pid} quick",
                "thorough_cmd": f"./check {pid} thorough",
                "evidence_file": f"/verif/evidence/{pid}.json",
                "replay_cmd_template": f"./check {pid} --replay {{path}}",
                "engine": "xv",
                "level_claimed": {"category": "exploration", "text": text, "design_ref": f"DESIGN.md section 4, {pid}"},
                "level_note": note,
                "technique": tech,
            })
        else:
            na.append({"property_id": pid, "reason": "check not built yet (work in progress in this session; design in DESIGN.md section 4)"})
    hooks_commits = subprocess.run(["git", "-C", "/repo", "log", "--format=%H %s"], capture_output=True, text=True).stdout.splitlines()
    hook_commits = [l.split()[0] for l in hooks_commits if "verif hook" in l]
    m = {
        "version": 1,
        "setup_cmd": "./check --setup",
        "hooks": {
            "guard": "cargo feature verif_hooks",
            "enable": "harness/Cargo.toml depends on xeh by path=/repo with features=[\"verif_hooks\"]",
            "baseline_off_cmd": "cd /repo && cargo test --workspace --no-fail-fast --offline",
            "source_commits": hook_commits,
            "add_only": True,
        },
        "engines": [
            {"name": "xv", "path": "harness/", "serves_properties": sorted(b),
             "kind_free_text": "Rust binary: proptest TestRunner over choice sequences (shrinking, fixed seed), systematic enumerators, worker processes, two build profiles (overflow checks on/off)"},
            {"name": "libfuzzer", "path": "fuzz/", "serves_properties": sorted(b),
             "kind_free_text": "one cargo-fuzz / libFuzzer target (ASan, debug assertions) that feeds its input bytes as the choice sequence of the selected property's generator + oracle (XV_PROP); thorough tier only, 16 processes with fixed run counts; artifacts are replayed strictly, reduced and saved as replay files"},
        ],
        "checks": checks,
        "not_applicable": na,
        "notes": "exit 0 held / 1 VIOLATION / 2 inconclusive. Known findings and fixed defects: known_findings.txt. Approach: DESIGN.md.",
    }
    json.dump(m, open(os.path.join(ROOT, "MANIFEST.json"), "w"), indent=1)
    print("checks:", [c["property_id"] for c in checks], "na:", len(na))
main()
