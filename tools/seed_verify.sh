#!/bin/bash
# usage: tools/seed_verify.sh <seed dir containing patch.diff demo.rs>
# Confirms in a scratch worktree of /repo HEAD: patch applies, suite passes with it, demo fails with it, demo passes without it.
set -u
D="$(realpath "$1")"
WT=/tmp/sv/wt
export CARGO_TARGET_DIR=/tmp/sv/target CARGO_NET_OFFLINE=true
mkdir -p /tmp/sv
git -C /repo worktree remove --force $WT >/dev/null 2>&1
git -C /repo worktree add --detach $WT HEAD >/dev/null 2>&1 || { echo "worktree failed"; exit 2; }
cd $WT
res="apply=ok"
git apply "$D/patch.diff" 2>/dev/null || git apply --3way "$D/patch.diff" 2>/dev/null || res="apply=FAIL"
if [ "$res" = "apply=ok" ]; then
  git diff -- src > /tmp/sv/cur.diff
  suite=$(cargo test --workspace --offline 2>&1 | grep -E "^test result" | head -1)
  mkdir -p tests; cp "$D/demo.rs" tests/demo.rs
  with=$(cargo test --offline --test demo 2>&1 | grep -E "^test result" | head -1)
  git checkout HEAD -- src
  without=$(cargo test --offline --test demo 2>&1 | grep -E "^test result" | head -1)
  echo "$res | suite: $suite | demo with: $with | demo without: $without"
else
  echo "$res"
fi
cd /; git -C /repo worktree remove --force $WT >/dev/null 2>&1
